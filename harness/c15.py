"""C15 — hyperedge replacement.  (a) single replacements: real replace_edge vs `G.replaceEdge`
(exact up to renaming of fresh ids) + the property clauses evaluated directly; (b) derivation
trees: derive() and random linearisations of the replacement steps, named by derivation path,
against the order-free specification `G.flatten`; (c) assignment total and weight product."""
import itertools, math
import torch
import fggs
from fggs import Node, Edge, Graph, HRGRule, FGGDerivation, replace_edge, start_graph, FactorGraph
from . import gen
from .genc import Coder, canon_ids
from .common import enc_list, Toks

RULE = ('random HRG/FGG shapes (isolated nodes, repeated attachments, nullary edges, repeated externals in a separate stream); '
        'single replacements of every nonterminal edge of every rule rhs by every rule rhs (right and wrong type); derivation trees '
        'to depth 3 / <= 12 instances with 5 (thorough: 20) random linearisations each; non-trivial = replacement with >=1 internal '
        'node and >=1 edge, or derivation with >= 2 rule instances')
ASSUMPTIONS = ['id() uniqueness among live objects is trusted (fresh ids are compared up to renaming)']


def run(ctx):
    run_single(ctx)
    run_derivations(ctx)


# ------------------------------------------------------------------ (a) single replacements

def corpus_d14(ctx, reqs, meta):
    """corpus: the minimal input of the recorded finding D14 (repeated external node)"""
    A = fggs.NodeLabel('A')
    X = fggs.EdgeLabel('X', [A, A], is_nonterminal=True)
    a, b, v = Node(A, 'a'), Node(A, 'b'), Node(A, 'v')
    host = Graph(); e = Edge(X, [a, b], id='x'); host.add_edge(e)
    repl = Graph(); repl.add_node(v); repl.ext = [v, v]
    one_replacement(ctx, host, e, repl, reqs, meta)


def run_single(ctx):
    reqs, meta = [], []
    corpus_d14(ctx, reqs, meta)
    n = 120 if ctx.quick else 1500
    for k in range(n):
        rep_ext = ctx.rng.random() < 0.15
        shape = gen.random_shape(ctx.rng, recursive=True, n_nts=(1, 3), rules_per_nt=(1, 2), p_rep_ext=0.8 if rep_ext else 0.0,
                                 start_arity=(0, 2), max_arity=2)
        hrg, info = gen.build_hrg(shape, ids=ctx.rng.choice(['implicit', 'explicit', 'mixed']), rng=ctx.rng)
        rules = hrg.all_rules()
        for host in rules:
            for e in list(host.rhs.edges()):
                if not e.label.is_nonterminal:
                    continue
                for r in rules:
                    if r.lhs != e.label and ctx.rng.random() < 0.7:
                        continue
                    one_replacement(ctx, host.rhs, e, r.rhs, reqs, meta)
                    if ctx.rng.random() < 0.25:
                        # the replacement given as a FactorGraph built from the graph (from_graph) or as a copy of one: same nodes,
                        # edges, external nodes and hence the same TYPE
                        fg = fggs.FactorGraph.from_graph(r.rhs)
                        if ctx.rng.random() < 0.5:
                            fg = fg.copy()
                        ctx.count('replace.factorgraph-replacement')
                        if fg.type != r.rhs.type or fg.ext != r.rhs.ext:
                            ctx.fail('FactorGraph.from_graph / copy of a graph does not have the type / external nodes of the graph',
                                     dict(ext=[str(v) for v in r.rhs.ext]), [str(l) for l in fg.type], [str(l) for l in r.rhs.type],
                                     tags=['replace', 'factorgraph-type'])
                        one_replacement(ctx, host.rhs, e, fg, reqs, meta)
                    if r is host and ctx.rng.random() < 0.5:
                        one_replacement(ctx, host.rhs, e, r.rhs, reqs, meta, alias=True)
        # an edge that is not in the graph
        if rules and ctx.rng.random() < 0.2:
            g = rules[0].rhs
            e = Edge(rules[0].lhs, [Node(l) for l in rules[0].lhs.type])
            one_replacement(ctx, g, e, rules[0].rhs, reqs, meta)
    for (case, before_tokens, impl), rep in zip(meta, ctx.driver.ask_many(reqs)):
        if isinstance(rep, Exception): raise rep
        if rep.startswith('raise'):
            model = ('raise', rep.split()[1])
        else:
            toks = rep.split()[1:]
            inv = toks[-1]
            model = ('ok', canon_ids(toks[:-1], known_impl_max=1000))
            if inv != 'T':
                ctx.disagree('G.graphInv false after a successful model replacement', case, None, rep)
        if impl[0] != model[0] or (impl[0] == 'raise' and impl[1] != model[1]) or (impl[0] == 'ok' and impl[1] != model[1]):
            ctx.disagree('G.replaceEdge vs fggs.replace_edge', case, impl, model)


def one_replacement(ctx, host, e, repl, reqs, meta, alias=False):
    g = host.copy()
    if alias:
        # the replacement IS the host graph object (a recursive rule's right-hand side rewritten with itself): the result must be the
        # one for a copy of the graph as it was (D52: RuntimeError 'dictionary changed size during iteration', host half rewritten)
        if ctx.rng.random() < 0.5:
            # ... and the host may be a FactorGraph (what derive() rewrites): its own copy() is then the one replace_edge relies on
            g = fggs.FactorGraph.from_graph(g)
            if ctx.rng.random() < 0.6:
                lab = ctx.rng.choice(list(g.nodes())).label if list(g.nodes()) else (e.label.type[0] if e.label.type else None)
                if lab is not None:
                    g.add_node(Node(lab))        # an isolated internal node
            ctx.count('replace.aliased-replacement.factorgraph-host')
        repl = g
        ctx.count('replace.aliased-replacement')
    c = Coder()
    genc = c.graph(g); eenc = c.edge(e); renc = c.graph(repl)
    known = len(c.impl)
    before_nodes, before_edges, before_ext = list(g.nodes()), list(g.edges()), g.ext
    live_ids = {n.id for n in before_nodes} | {x.id for x in before_edges} | {n.id for n in repl.nodes()} | {x.id for x in repl.edges()}
    case = dict(graph=genc, edge=eenc, replacement=renc, aliased=alias)
    if alias:
        # the checks below read the replacement as it was before the call: a snapshot taken node by node and edge by edge, not through
        # the library's copy() (a copy() that loses something would otherwise be the reference)
        snap = Graph()
        for v_ in g.nodes(): snap.add_node(v_)
        for x_ in g.edges(): snap.add_edge(x_)
        snap.ext = g.ext
        repl_call, repl = g, snap
    else:
        repl_call = repl
    try:
        node_map, edge_map = replace_edge(g, e, repl_call)
        # encode result with the same coder; new implicit ids get numbers >= known
        c2 = c
        res = c2.graph(g) + ' ' + enc_list(node_map.items(), lambda p: c2.node(p[0]) + ' ' + c2.node(p[1])) + ' ' + \
            enc_list(edge_map.items(), lambda p: c2.id(p[0].id) + ' ' + c2.id(p[1].id))
        toks = res.split()
        # shift new implicit ids to the model's range (>= 1000) before canonicalisation: simply canonicalise those >= known
        impl = ('ok', canon_ids(toks, known_impl_max=known))
    except ValueError:
        impl = ('raise', 'ValueError')
        node_map = edge_map = None
    except KeyError:
        impl = ('raise', 'KeyError')
        node_map = edge_map = None
    except Exception as ex:  # noqa
        ctx.fail(f'replace_edge raised {type(ex).__name__}: {str(ex)[:80]}' + (' (the replacement is the host graph itself)' if alias else ''), case,
                 repr(ex), None, tags=['replace', 'raises', type(ex).__name__] + (['aliased-replacement'] if alias else []))
        return
    nontriv = len(list(repl.edges())) >= 1 and len(list(repl.nodes())) > len(repl.ext)
    ctx.case(case, (genc, eenc, renc) if nontriv else None, sample_every=300)
    ctx.count('replace.' + impl[0] + ('' if impl[0] == 'ok' else '.' + impl[1]))
    rep_ext = len(set(repl.ext)) != len(repl.ext)
    # ---- the property, directly
    typed = e.label.type == repl.type
    if not typed:
        if impl != ('raise', 'ValueError'):
            ctx.fail('a replacement of the wrong type is not rejected with ValueError', case, impl, 'ValueError', tags=['replace-type'])
        elif (list(g.nodes()), list(g.edges()), g.ext) != (before_nodes, before_edges, before_ext):
            ctx.fail('a rejected replacement changed the graph', case, None, None, tags=['replace-atomic'])
    elif impl[0] == 'ok':
        tags = ['replace'] + (['repeated-ext'] if rep_ext else [])
        after_nodes, after_edges = list(g.nodes()), list(g.edges())
        bad = []
        if e in after_edges or [x for x in before_edges if x != e] != after_edges[:len(before_edges) - 1]:
            bad.append('not exactly the replaced edge was removed / other edges changed')
        if after_nodes[:len(before_nodes)] != before_nodes:
            bad.append('pre-existing nodes changed')
        if g.ext != before_ext:
            bad.append('external nodes of the host changed')
        for i, rn in enumerate(repl.ext):
            if node_map[rn] != e.nodes[i]:
                bad.append(f'external node {i} of the replacement is not identified with attachment node {i}')
                tags.append('ext-not-identified')
        internal = [rn for rn in repl.nodes() if rn not in repl.ext]
        missing = [rn for rn in list(repl.nodes()) if rn not in node_map] + [re_ for re_ in repl.edges() if re_ not in edge_map]
        if missing:
            ctx.fail('the returned node_map / edge_map does not cover every node and edge of the replacement', case,
                     [str(x) for x in missing][:5], None, tags=tags + ['map-incomplete'])
            return
        copies = [node_map[rn] for rn in internal]
        if after_nodes[len(before_nodes):] != copies or any(cn.label != rn.label for cn, rn in zip(copies, internal)):
            bad.append('internal nodes are not copied one to one with their labels')
        if any(cn.id in live_ids for cn in copies) or len({cn.id for cn in copies}) != len(copies):
            bad.append('a copied node does not have a fresh id')
        new_edges = after_edges[len(before_edges) - 1:]
        for re_, ge in zip(repl.edges(), new_edges):
            if edge_map[re_] != ge or ge.label != re_.label or ge.nodes != tuple(node_map[x] for x in re_.nodes):
                bad.append('an edge copy does not preserve label / attachment order')
            if ge.id in live_ids:
                bad.append('a copied edge does not have a fresh id')
        if len(new_edges) != len(list(repl.edges())):
            bad.append('edge copies missing or duplicated')
        for b in bad:
            ctx.fail('replace_edge: ' + b, case, None, None, tags=tags)
    reqs.append(f'C15.replace 1000 {genc} {eenc} {renc}')
    meta.append((case, None, impl))


# ------------------------------------------------------------------ (b),(c) derivations

def random_deriv(rng, fgg, nt, depth, budget):
    """a random derivation tree for nonterminal nt (None if none within the depth)"""
    rules = list(fgg.rules(nt))
    rng.shuffle(rules)
    for rule in rules:
        nts = [e for e in rule.rhs.edges() if e.label.is_nonterminal]
        if nts and depth == 0:
            continue
        if budget[0] <= 0 and nts:
            continue
        budget[0] -= 1
        children = {}
        ok = True
        for e in nts:
            d = random_deriv(rng, fgg, e.label, depth - 1, budget)
            if d is None:
                ok = False
                break
            children[e] = d
        if not ok:
            continue
        asst = {v: rng.randrange(fgg.domains[v.label.name].size()) for v in rule.rhs.nodes()}
        if len(children) >= 2 and rng.random() < 0.5:
            # the children mapping is keyed by edge: its insertion order is not the order of the edges in the rule
            items = list(children.items())
            rng.shuffle(items)
            children = dict(items)
        return FGGDerivation(fgg, rule, asst, children)
    return None


def make_consistent(d, ext_vals=None):
    """make child assignments agree with the parent's on external nodes"""
    if ext_vals is not None:
        for v, x in zip(d.rule.rhs.ext, ext_vals):
            d.asst[v] = x
    for e, c in d.children.items():
        make_consistent(c, [d.asst[v] for v in e.nodes])


def enc_deriv(d, c):
    edges = list(d.rule.rhs.edges())
    kids = [(edges.index(e), ch) for e, ch in d.children.items()]
    return f'{c.elabel(d.rule.lhs)} {c.graph(d.rule.rhs)} ' + enc_list(kids, lambda p: f'{p[0]} {enc_deriv(p[1], c)}')


def instances(d, path=()):
    yield path, d
    edges = list(d.rule.rhs.edges())
    for e, ch in d.children.items():
        yield from instances(ch, path + (edges.index(e),))


def linearise(d, order_rng=None):
    """carry out the replacements in a (random) order respecting parent-before-child; returns the
    graph named by derivation path: (sorted named nodes, sorted named edges)"""
    graph = Graph()
    e0 = Edge(d.rule.lhs, [Node(l) for l in d.rule.lhs.type])
    graph.add_edge(e0)
    name = {n: ('root', k) for k, n in enumerate(e0.nodes)}
    ename = {}
    pending = [((), d, e0)]
    while pending:
        i = order_rng.randrange(len(pending)) if order_rng else len(pending) - 1
        path, dv, edge = pending.pop(i)
        node_map, edge_map = replace_edge(graph, edge, dv.rule.rhs)
        rnodes = list(dv.rule.rhs.nodes())
        for rn, gn in node_map.items():
            if gn not in name:
                name[gn] = ('at', path, rnodes.index(rn))
        redges = list(dv.rule.rhs.edges())
        new = []
        for re_, ge in edge_map.items():
            if re_ not in dv.children:
                ename[ge] = (path, redges.index(re_))
        for re_ in dv.children:     # derive() visits the children in this order, depth-first
            new.append((path + (redges.index(re_),), dv.children[re_], edge_map[re_]))
        pending.extend(new if order_rng else reversed(new))
    nodes = sorted(fmt_pnode(name[n]) for n in graph.nodes())
    return graph, name, ename


def fmt_pnode(p):
    if p[0] == 'root':
        return f'root {p[1]}'
    return f'at {enc_list(p[1])} {p[2]}'


def named_graph(graph, name, ename, c):
    nodes = sorted(fmt_pnode(name[n]) for n in graph.nodes())
    edges = sorted(f'{c.elabel(e.label)} {enc_list(e.nodes, lambda n: fmt_pnode(name[n]))} {enc_list(ename[e][0])} {ename[e][1]}'
                   for e in graph.edges())
    return nodes, edges


def parse_flatten(rep):
    t = Toks(rep)
    def pnode():
        k = t.next()
        if k == 'root':
            return f'root {t.nat()}'
        path = t.list(t.nat)
        return f'at {enc_list(path)} {t.nat()}'
    nodes = t.list(pnode)
    def pedge():
        name = t.nat(); ty = t.list(t.nat); term = t.next()
        ns = t.list(pnode); path = t.list(t.nat); pos = t.nat()
        return f'{name} {enc_list(ty)} {term} {enc_list(ns)} {enc_list(path)} {pos}'
    edges = t.list(pedge)
    return sorted(nodes), sorted(edges)


def run_derivations(ctx):
    n = 200 if ctx.quick else 1500
    m = 4 if ctx.quick else 20
    reqs, meta = [], []
    done = 0
    attempts = 0
    while done < n and attempts < 20 * n:
        attempts += 1
        shape = gen.random_shape(ctx.rng, recursive=True, n_nts=(1, 3), rules_per_nt=(1, 2), start_arity=(0, 2), dom_sizes=(1, 2, 3),
                                 weights=lambda r: r.choice([0.5, 1.0, 2.0, 3.0]), p_ruleless=0.0)
        fgg, info = gen.build_fgg(shape, ids=ctx.rng.choice(['implicit', 'explicit']))
        d = random_deriv(ctx.rng, fgg, fgg.start, 3, [12])
        if d is None:
            continue
        make_consistent(d)
        done += 1
        ninst = sum(1 for _ in instances(d))
        c = Coder()
        denc = enc_deriv(d, c)
        case = dict(derivation=denc)
        ctx.case(case, denc if ninst >= 2 else None, sample_every=100)
        ctx.count(f'instances={min(ninst, 8)}')
        named = []
        for j in range(m):
            g, name, ename = linearise(d, ctx.rng if j else None)
            named.append(named_graph(g, name, ename, c))
        if any(x != named[0] for x in named[1:]):
            ctx.fail('two linearisations of one derivation give non-isomorphic graphs', case, None, None, tags=['order-dependent'])
        reqs.append(f'C15.flatten {denc}')
        meta.append((case, named[0]))
        # derive(): same graph as the depth-first linearisation up to fresh ids; assignment; weight
        try:
            graph, asst = d.derive()
        except Exception as e:  # noqa
            ctx.fail(f'derive() raised {type(e).__name__}: {str(e)[:100]}', case, repr(e), None, tags=['derive-raises', type(e).__name__])
            continue
        g2, name2, ename2 = linearise(d, None)
        c1, c3 = Coder(), Coder()
        c1.nl = c3.nl = dict(c.nl); c1.el = c3.el = dict(c.el); c1.expl = c3.expl = dict(c.expl)
        a = canon_ids(c1.graph(graph).split())
        b = canon_ids(c3.graph(g2).split())
        # label tables of FactorGraph vs Graph may be ordered alike; compare nodes/edges/ext part only
        if a != b:
            ctx.fail('derive() differs from carrying out the replacements depth-first', case, ' '.join(a), ' '.join(b), tags=['derive-graph'])
        if set(asst.keys()) != set(graph.nodes()):
            ctx.fail('derive(): the assignment is not total on the derived graph', case, len(asst), len(list(graph.nodes())), tags=['derive-asst'])
        else:
            # weight of the derived factor graph under asst = product over rule instances
            w = 1.0
            for e in graph.edges():
                w *= graph.factors[e.label.name].apply([graph.domains[v.label.name].denumberize(asst[v]) for v in e.nodes]).item()
            w2 = 1.0
            for path, dv in instances(d):
                for e in dv.rule.rhs.edges():
                    if e.label.is_terminal:
                        w2 *= fgg.factors[e.label.name].apply([fgg.domains[v.label.name].denumberize(dv.asst[v]) for v in e.nodes]).item()
            ctx.evaluations += 1
            if w != w2:
                ctx.fail('derive(): factor-weight product differs from the product over rule instances', case, w, w2, tags=['derive-weight'])
    for (case, named0), rep in zip(meta, ctx.driver.ask_many(reqs)):
        if isinstance(rep, Exception): raise rep
        spec = parse_flatten(rep)
        if (list(spec[0]), list(spec[1])) != (list(named0[0]), list(named0[1])):
            ctx.fail('the derived graph differs from the order-free specification G.flatten', case, named0, spec, tags=['flatten'])


def replay(ctx, rep):
    run(ctx)
    return bool(ctx.failures or ctx.disagreements)
