"""C03 — gradients.  Back-propagation through sum_product (Real: dZ/dw, Log: dlogZ/dlog w) against
the derivative computed by the Lean model over dual numbers K[eps]/(eps^2): exact for non-recursive
grammars (integer/dyadic weights), tolerance for recursive ones (Kleene iteration on dual numbers,
rounded down, 1200 steps)."""
import math, warnings
from fractions import Fraction
import torch
import fggs
from . import gen, semgen
from .c02 import sccs_and_linearity
from .common import enc_ext, enc_list, Toks

RULE = ('grammars from the C01 (non-recursive) and C02 (recursive, finite) generators; Real and Log; methods fixed-point/newton/linear; '
        'random non-uniform output cotangents; requires_grad on all factors or on a strict subset; factors shared between rules and '
        'factors that cannot reach the start; non-trivial = some weight entry has a non-zero derivative')
ASSUMPTIONS = ['fggs.sum_product.J is also called directly (MultiTensor of random integer values) and compared block by block with Pipe.jac',
               'torch autograd chains the per-SCC backward functions (trusted)',
               'recursive grammars: derivative of the least fixed point compared within 1e-5 relative (tolerance regime)']


def run(ctx):
    n = 120 if ctx.quick else 600
    k = 0
    attempts = 0
    # corpus: one label twice on the same pair of nodes in opposite orders, one of the nodes external (the two partial
    # derivatives of the rule w.r.t. that label differ by a transposition), under a non-uniform cotangent
    run_case(ctx, dict(nls=[2], terms=[[0, 0], [0]], nts=[[0]], start=0,
                       rules=[dict(lhs=0, nodes=[0, 0], ext=[0], edges=[('t', 0, [0, 1]), ('t', 0, [1, 0]), ('t', 1, [1])])],
                       weights={0: [1.0, 2.0, 3.0, 0.5], 1: [1.0, 2.0]}), False, True)
    # corpus for the command line option -n: factors already normalised along the dimension given to -n (rows / columns sum to 1)
    for dim, tw in ((1, [0.5, 0.5, 0.25, 0.75]), (0, [0.5, 0.25, 0.5, 0.75])):
        run_case(ctx, dict(nls=[2], terms=[[0], [0, 0], [0]], nts=[[]], start=0,
                           rules=[dict(lhs=0, nodes=[0, 0], ext=[], edges=[('t', 0, [0]), ('t', 1, [0, 1]), ('t', 2, [1])])],
                           weights={0: [1.0, 2.0], 1: tw, 2: [3.0, 1.0]}, _cli_n=(1, dim)), False, True)
    while k < n and attempts < 20 * n:
        attempts += 1
        recursive = ctx.rng.random() < 0.4
        if attempts % 12 == 5:
            recursive = True
            shape = matrix_family(ctx.rng)
            rec, lin = sccs_and_linearity(shape)
            ctx.count('matrix-family')
            if run_case(ctx, shape, recursive, lin):
                k += 1
            continue
        if attempts % 12 == 7:
            # recursive nonterminals whose value is NOT dense (repeated external nodes: a diagonal that fills in, or stays diagonal)
            from .c02 import gen_pattern_growing
            recursive = True
            shape = gen_pattern_growing(ctx.rng)
            if ctx.rng.random() < 0.5:
                # X(a,a) -> p(a) | t(a,c) X(c,c): every rule repeats the external node, the value stays diagonal
                dom = shape['nls'][0]
                shape['rules'] = [r for r in shape['rules'] if not (r['lhs'] == 1 and len(r['nodes']) == 3)] + \
                    [dict(lhs=1, nodes=[0, 0], ext=[0, 0], edges=[('t', 0, [0, 1]), ('n', 1, [1, 1])])]
            rec, lin = sccs_and_linearity(shape)
            ctx.count('pattern-growing-family')
            if run_case(ctx, shape, recursive, lin):
                k += 1
            continue
        if recursive:
            from .c02 import gen_shape as g2
            shape = g2(ctx.rng)
            rec, lin = sccs_and_linearity(shape)
            if not rec:
                continue
            if ctx.rng.random() < 0.4:
                shape = add_dead_rule(ctx.rng, shape)
                rec, lin = sccs_and_linearity(shape)
        else:
            from .c01 import gen_shape as g1
            shape = g1(ctx.rng, dom_sizes=(1, 2, 3, 2))
            shape['weights'] = {i: [x if x != math.inf else 2.0 for x in w] for i, w in shape['weights'].items()}
            lin = True
        if ctx.rng.random() < 0.3:
            shape = add_swapped_parallel_edge(ctx.rng, shape)
            if recursive:
                # the copied edge may be a nonterminal edge of the rule's own SCC: linearity has to be re-derived
                # (a stale `lin` made the harness call method='linear' on X -> X X and report the library's
                # correct ValueError as a violation: false alarm, corrected here)
                rec, lin = sccs_and_linearity(shape)
        if run_case(ctx, shape, recursive, lin):
            k += 1


def matrix_family(rng):
    """recursive grammars whose recursive nonterminal has TWO external nodes and a non-symmetric value (matrix-chain / CKY-like):
    X(d, e) -> a(d, m) X(m, e) | X(d, m) b(m, e) | c(d, e);  S -> X(i, j) w(i, j).  The block of the Jacobian for (X, X) is a 4-d
    tensor, and the transposed system of the backward pass must flatten rows and columns in the same (row-major) order as the
    cotangent."""
    d = rng.choice([2, 2, 3])
    two = rng.random() < 0.4
    nls = [d] + ([rng.choice([2, 3])] if two else [])
    l1 = 1 if two else 0
    terms = [[0, 0], [l1, l1], [0, l1], [0, l1]]
    nts = [[], [0, l1]]
    rules = [dict(lhs=0, nodes=[0, l1], ext=[], edges=[['n', 1, [0, 1]], ['t', 3, [0, 1]]])]
    kinds = rng.sample(['left', 'right'], rng.choice([1, 2]))
    for kd in kinds:
        if kd == 'left':
            rules.append(dict(lhs=1, nodes=[0, l1, 0], ext=[0, 1], edges=[['t', 0, [0, 2]], ['n', 1, [2, 1]]]))
        else:
            rules.append(dict(lhs=1, nodes=[0, l1, l1], ext=[0, 1], edges=[['n', 1, [0, 2]], ['t', 1, [2, 1]]]))
    rules.append(dict(lhs=1, nodes=[0, l1], ext=[0, 1], edges=[['t', 2, [0, 1]]]))
    shape = dict(nls=nls, terms=terms, nts=nts, start=0, rules=rules)
    shape['weights'] = {i: [rng.choice([0.0625, 0.125, 0.25, 0.0]) if i < 2 else rng.choice([1.0, 2.0, 0.5, 3.0])
                            for _ in range(math.prod(nls[l] for l in ty))] for i, ty in enumerate(terms)}
    shape['vweights'] = {i: [rng.choice([-1.0, -2.0, -3.0]) for _ in w] for i, w in shape['weights'].items()}
    shape['bweights'] = {i: [1.0 for _ in w] for i, w in shape['weights'].items()}
    return shape


def add_swapped_parallel_edge(rng, shape):
    """some binary edge whose two nodes carry the same node label gets a parallel copy (same label) with the attachment
    order swapped: a(u, v) a(v, u) — two derivatives of one rule w.r.t. the same label over the same node SET"""
    import copy
    sh = copy.deepcopy(shape)
    cands = [(ri, ei) for ri, r in enumerate(sh['rules']) for ei, (kind, j, att) in enumerate(r['edges'])
             if len(att) == 2 and att[0] != att[1] and r['nodes'][att[0]] == r['nodes'][att[1]]]
    if not cands:
        return shape
    ri, ei = rng.choice(cands)
    kind, j, att = sh['rules'][ri]['edges'][ei]
    pos = rng.randint(0, len(sh['rules'][ri]['edges']))
    sh['rules'][ri]['edges'].insert(pos, (kind, j, [att[1], att[0]]))
    return sh


def add_dead_rule(rng, shape):
    """add a nonterminal D of X's SCC that has no terminating derivation (D -> D X) and a rule X -> D listed
    BEFORE X's other rules: that rule's sum-product is structurally absent (None), not a zero tensor"""
    import copy
    sh = copy.deepcopy(shape)
    X = rng.randrange(len(sh['nts']))
    ty = sh['nts'][X]
    D = len(sh['nts'])
    sh['nts'].append(list(ty))
    k = len(ty)
    dead = dict(lhs=X, nodes=list(ty), ext=list(range(k)), edges=[('n', D, list(range(k)))])
    loop = dict(lhs=D, nodes=list(ty) + list(ty), ext=list(range(k)), edges=[('n', D, list(range(k))), ('n', X, list(range(k, 2 * k)))])
    first = next((i for i, r in enumerate(sh['rules']) if r['lhs'] == X), len(sh['rules']))
    sh['rules'].insert(first, dead)
    sh['rules'].append(loop)
    return sh


def run_case(ctx, shape, recursive, linear):
    T = len(shape['terms'])
    entries = [(i, j) for i in range(T) for j in range(len(shape['weights'][i]))]
    if not entries or len(entries) > 40:
        return False
    nsteps, bits = (1200, 60) if recursive else (len(shape['nts']) + 1, 0)
    rep = ctx.driver.ask(f'C03.dual {gen.enc_shape(shape)} {enc_list(entries, lambda e: f"{e[0]} {e[1]}")} {nsteps} {bits}')
    t = Toks(rep)
    model = {}
    zval = None
    for e in entries:
        cells = t.list(lambda: (t.ext(), t.ext()))
        model[e] = [c[1] for c in cells]
        zval = [c[0] for c in cells]
    try:
        if zval is None or any(isinstance(z, float) for z in zval) or max([float(z) for z in zval] + [0]) > 50:
            return False     # infinite / divergent: outside the property's precondition
    except OverflowError:
        return False
    CAP = 2.0 ** 39
    if any((not isinstance(d, float)) and abs(float(d)) >= CAP for e in entries for d in model[e]):
        ctx.count('model-derivative-saturated-skipped')   # the model's iterates hit its saturation bound (Sem.capDown)
        return False
    if recursive:
        # convergence check of the model itself: one more batch of steps must not move the derivative
        rep2 = ctx.driver.ask(f'C03.dual {gen.enc_shape(shape)} {enc_list(entries, lambda e: f"{e[0]} {e[1]}")} {nsteps // 2} {bits}')
        t2 = Toks(rep2)
        for e in entries:
            cells = t2.list(lambda: (t2.ext(), t2.ext()))
            if any(isinstance(a, float) or isinstance(b, float) or abs(float(a) - float(b[1])) > 1e-9 * max(1.0, abs(float(a)))
                   for a, b in zip(model[e], cells)):
                ctx.count('model-not-converged-skipped')
                return False
    case = dict(shape=shape, recursive=recursive)
    # the Jacobian itself (what backward and newton are built on): J at a random point against the model `Pipe.jac`
    from . import jac
    jac.stream(ctx, shape, 'real', 'J', case)
    # J_log (the Jacobian the Log-semiring backward pass uses) against its model `Jl.jlogLabel` (theorem C03.jlog_is_logDerivative)
    jac.stream_jlog(ctx, shape, case)
    # SumProduct.backward (autograd through sum_products, all components) against its model `Bw.backward` (theorem C03.backward_is_adjoint)
    jac.stream_backward(ctx, shape, case, recursive)
    if 'vweights' in shape:
        jac.stream(ctx, shape, 'viterbi', 'J', case)
    nontriv = any(d != 0 for e in entries for d in model[e])
    ctx.case(case, repr(shape) if nontriv else None, sample_every=30)
    ctx.count('recursive' if recursive else 'nonrecursive')
    ncell = len(zval)
    cot = [ctx.rng.choice([1.0, 2.0, 0.5, 3.0, -1.0, -2.0, 0.0]) for _ in range(ncell)]
    if ncell >= 2 and ctx.rng.random() < 0.3:
        cot = [1.0, -1.0] + [0.0] * (ncell - 2)        # a cotangent that sums to zero without being zero
        ctx.rng.shuffle(cot)
    methods = ['fixed-point', 'newton'] + (['linear'] if linear else [])
    if nontriv and getattr(ctx, '_cli_left', None) is None:
        ctx._cli_left = 10 if ctx.quick else 60
    if shape.get('_cli_n') is not None:
        cli_case(ctx, shape, case, model, zval, cot, recursive)
    elif nontriv and ctx._cli_left > 0 and ctx.rng.random() < 0.5:
        ctx._cli_left -= 1
        cli_case(ctx, shape, case, model, zval, cot, recursive)
    from .jac import jpp_tags
    iso = jpp_tags(shape)
    for name in ('real', 'log'):
        for method, jp in [(m_, False) for m_ in methods] + ([('fixed-point', True)] if name == 'real' else []):
            subset = ctx.rng.random() < 0.3
            fgg, info = semgen.build(shape, name, torch.float64)
            leaves = {}
            for i, el in enumerate(info['TL']):
                w = fgg.factors[el.name].weights
                if subset and ctx.rng.random() < 0.5:
                    continue
                w.physical.requires_grad_(True)
                leaves[i] = w
            if not leaves:
                continue
            try:
                with warnings.catch_warnings():
                    warnings.simplefilter('ignore')
                    z = fggs.sum_product(fgg, method=method, semiring=semgen.semiring_of(name, torch.float64), tol=1e-12, kmax=3000,
                                         **({'j_precompute': True} if jp else {}))
                zd = z.to_dense().reshape(-1)
                c = torch.tensor(cot, dtype=torch.float64)
                if name == 'log':
                    finite = torch.isfinite(zd)
                    if not bool(finite.any()):
                        continue
                    obj = (zd[finite] * c[finite]).sum()
                else:
                    obj = (zd * c).sum()
                if not obj.requires_grad:
                    grads = {i: None for i in leaves}
                else:
                    obj.backward()
                    grads = {i: w.physical.grad for i, w in leaves.items()}
            except Exception as e:  # noqa
                import traceback
                where = [f.name for f in traceback.extract_tb(e.__traceback__)]
                ctx.fail(f'backward through sum_product raised {type(e).__name__}: {e}', dict(case, semiring=name, method=method, j_precompute=jp), repr(e), None,
                         tags=['raises', name, method, type(e).__name__] + (['j_precompute=True'] if jp else []) +
                              (['in:J_precompute_products'] if 'J_precompute_products' in where else []))
                continue
            ctx.count(f'{name}.{method}' + ('.j_precompute' if jp else ''))
            for i, w in leaves.items():
                g = grads[i]
                gl = None if g is None else w.nonphysical().reincarnate(g).to_dense().reshape(-1).tolist() if g.shape == w.physical.shape else None
                for j in range(len(shape['weights'][i])):
                    d = model[(i, j)]
                    if name == 'real':
                        want = sum(Fraction(cot[a]) * d[a] for a in range(ncell))
                    else:
                        wv = shape['weights'][i][j]
                        if wv == 0:
                            continue          # log-weight -inf: derivative w.r.t. a non-finite log-weight is not claimed
                        want = sum(Fraction(cot[a]) * Fraction(wv) * d[a] / zval[a] for a in range(ncell) if zval[a] != 0)
                    got = 0.0 if gl is None else gl[j]
                    ctx.evaluations += 1
                    tol = 1e-5 if recursive or name == 'log' else 1e-10
                    if not (abs(got - float(want)) <= tol * max(1.0, abs(float(want)))):
                        ctx.fail(f'{name}/{method}' + ('/j_precompute' if jp else '') + f': gradient w.r.t. weight entry (t{i},{j}) is {got}, the derivative is {float(want)}',
                                 dict(case, semiring=name, method=method, j_precompute=jp, entry=[i, j], cotangent=cot), got, float(want),
                                 tags=['gradient', name, method, 'recursive' if recursive else 'nonrecursive'] + ((['j_precompute=True'] + iso) if jp else []))
    return True


def cli_case(ctx, shape, case, model, zval, cot, recursive):
    """the other observation point the property names: `bin/sum_product.py -G / -g / -e`, with the output cotangent given by
    `-o <weights>` (any linear functional of the start tensor): printed gradients and expected counts against the model's derivative"""
    import json, os, subprocess, sys, tempfile
    from fggs import formats
    fgg, info = semgen.build(shape, 'real', torch.float64)
    j = formats.fgg_to_json(fgg)
    ncell = len(zval)
    sshape = list(fgg.shape(fgg.start))
    cot_t = torch.tensor(cot, dtype=torch.float64).reshape(sshape).tolist() if sshape else cot[0]
    uniform = all(c == 1.0 for c in cot)
    # -e (expected counts) requires some factor to be given with -w: one factor is taken out of the file and passed on the command line
    names = [el.name for el in info['TL']]
    extra = []
    if names and ctx.rng.random() < 0.7:
        nm = ctx.rng.choice(names)
        w = j['interpretation']['factors'].pop(nm)['weights']
        extra = ['-e', '-w', nm, json.dumps(w)]
    with tempfile.TemporaryDirectory(prefix='fggs-verif-cli-') as d:
        f = os.path.join(d, 'g.json')
        with open(f, 'w') as fh:
            json.dump(j, fh)
        repo = os.environ.get('FGGS_REPO', '/repo')
        # -n <factor> <dim> on a factor that is ALREADY normalised along <dim> (corpus shapes): the option must not change the result
        norm = []
        if shape.get('_cli_n') is not None:
            ti, dim = shape['_cli_n']
            if info['TL'][ti].name not in [extra[2]] if extra else True:
                norm = ['-n', info['TL'][ti].name, str(dim)]
                ctx.count('cli.-n')
        cmd = [sys.executable, repo + '/bin/sum_product.py', f, '-d', '-m', 'fixed-point', '-l', '1e-12', '-k', '3000', '-G'] + extra + norm + \
              ([] if uniform else ['-o', json.dumps(cot_t)])
        r = subprocess.run(cmd, capture_output=True, text=True, env=dict(os.environ, PYTHONPATH=repo), timeout=600)
    ctx.evaluations += 1
    ctx.count('cli.-o' if not uniform else 'cli.default-cotangent')
    cfg = dict(case, cli=cmd[3:], cotangent=cot)
    if r.returncode != 0:
        last = r.stderr.strip().splitlines()[-1][:160] if r.stderr.strip() else ''
        ctx.fail(f'bin/sum_product.py -G' + (' -e -w ...' if extra else '') + ('' if uniform else ' -o <cotangent>') + f' exited with {r.returncode}: {last}', cfg, r.stderr[-400:], None,
                 tags=['cli', 'cli-error'] + ([] if uniform else ['-o']))
        return
    lines = [l for l in r.stdout.splitlines() if l.strip()]
    try:
        grads = {l.split(':', 1)[0][5:-1]: torch.tensor(json.loads(l.split(':', 1)[1]), dtype=torch.float64).reshape(-1).tolist()
                 for l in lines if l.startswith('grad[')}
        expects = {l.split(':', 1)[0][3:-1]: torch.tensor(json.loads(l.split(':', 1)[1]), dtype=torch.float64).reshape(-1).tolist()
                   for l in lines if l.startswith('E[#')}
    except Exception:  # noqa
        ctx.fail('bin/sum_product.py printed something unreadable', cfg, r.stdout[-300:], None, tags=['cli', 'cli-output'])
        return
    fval = sum(Fraction(cot[a]) * zval[a] for a in range(ncell))
    tol = 1e-5 if recursive else 1e-9
    for i, el in enumerate(info['TL']):
        if el.name not in grads:
            ctx.fail(f'bin/sum_product.py -G printed no gradient for factor {el.name}', cfg, sorted(grads), el.name, tags=['cli', 'cli-grad-missing'])
            continue
        for jx in range(len(shape['weights'][i])):
            want = float(sum(Fraction(cot[a]) * model[(i, jx)][a] for a in range(ncell)))
            got = grads[el.name][jx]
            ctx.evaluations += 1
            if not abs(got - want) <= tol * max(1.0, abs(want)):
                ctx.fail(f'bin/sum_product.py -G: grad[{el.name}][{jx}] = {got}, the derivative of the weighted sum-product is {want}', cfg, got, want,
                         tags=['cli', 'cli-grad'])
                return
            if fval != 0 and el.name in expects:
                wantE = want * shape['weights'][i][jx] / float(fval)
                gotE = expects[el.name][jx]
                if not abs(gotE - wantE) <= 10 * tol * max(1.0, abs(wantE)):
                    ctx.fail(f'bin/sum_product.py -e: E[#{el.name}][{jx}] = {gotE}, expected count is {wantE}', cfg, gotE, wantE, tags=['cli', 'cli-expect'])
                    return


def replay(ctx, rep):
    run(ctx)
    return bool(ctx.failures or ctx.disagreements)
