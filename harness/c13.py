"""C13 — equal / allclose decide (approximate) equality of the denoted tensors.  Pairs of typed
patterns over a common type list; the implementation's verdict is compared with torch on the dense
tensors (the property), with the Lean model of the counting argument (`PT.compareModel`) and with the
Lean specification (`PT.compareSpec` on `PT.dense`); symmetric, reflexive, representation-insensitive;
MultiTensor.allclose treats an absent block as zero."""
import math, itertools
import torch
import fggs
from fggs.indices import PatternedTensor
from fggs.multi import MultiTensor
from . import ptgen
from .ptgen import random_type, random_pt, ty_numel
from .common import Toks, enc_ext, enc_list

RULE = ('ordered pairs of typed patterns over a common type list (0..3 dims, depth <= 2), physical values in {0,1,2} and defaults in {0,1,2} so '
        'that equal and unequal pairs are both frequent, plus pairs derived from one tensor (clone, densification, re-patterning, one changed '
        'cell / changed default); tolerances (rtol, atol) in {(0,0),(0,0.1),(1e-5,1e-8),(0.5,0)} with values at the decision boundary; '
        'non-trivial = at least one operand is not dense')
ASSUMPTIONS = ['the model takes the overlap of the two patterns to be the intersection of their images (unification is exact on well-typed operands); '
               'the implementation\'s verdict is compared with it and with torch on every case']

TOLS = [(0.0, 0.0), (0.0, 0.1), (1e-5, 1e-8), (0.5, 0.0)]


def repattern(rng, t, types):
    """another representation of the same dense tensor"""
    c = rng.random()
    if c < 0.3:
        return t.clone()
    if c < 0.6:
        return PatternedTensor(t.to_dense())
    # a fresh random pattern over the same types, filled from the dense tensor
    u = random_pt(rng, types)
    d = t.to_dense()
    # read the dense values at u's backed positions; cells not backed by u must equal u.default: choose default = most common value
    from fggs.indices import project
    phys = project(d.clone(), u.paxes, u.vaxes, {})[0].clone()
    cand = PatternedTensor(phys, u.paxes, u.vaxes, t.default)
    if bool((cand.to_dense() == d).all()):
        return cand
    return PatternedTensor(d.clone())


def run(ctx):
    n = 80 if ctx.quick else 2500
    reqs, meta = [], []
    vals = [0.0, 1.0, 2.0]
    for k in range(n):
        nd = ctx.rng.choice([0, 1, 1, 2, 2, 3])
        types = [random_type(ctx.rng, depth=2, sizes=[1, 2, 3, 2]) for _ in range(nd)]
        if math.prod(ty_numel(t) for t in types) > 200:
            continue
        t = random_pt(ctx.rng, types, values=vals, defaults=vals, specials=0.05, max_phys=120)
        pairs = [('random', random_pt(ctx.rng, types, values=vals, defaults=vals, specials=0.05, max_phys=120))]
        pairs.append(('same', repattern(ctx.rng, t, types)))
        v = repattern(ctx.rng, t, types)
        dv = v.to_dense().contiguous().clone()
        if dv.numel():
            dv.view(-1)[ctx.rng.randrange(dv.numel())] += ctx.rng.choice([1.0, 0.05, 1e-6])
            pairs.append(('one-cell', PatternedTensor(dv) if ctx.rng.random() < 0.5 else repattern(ctx.rng, PatternedTensor(dv), types)))
        w = t.clone(); w.default = t.default + 1.0
        pairs.append(('default-changed', w))
        pairs.append(('other-shape', random_pt(ctx.rng, types + [('atom', 2)], values=vals, defaults=vals)))
        # operands that SHARE PhysicalAxis objects with t, in other positions: views of t itself (transpose/permute reuse t's axes;
        # a symmetrised tensor is then equal to its own transpose), and another tensor built over t's axis objects
        if nd >= 2:
            perm = list(range(nd)); ctx.rng.shuffle(perm)
            if [t.shape[i] for i in perm] == list(t.shape):
                pairs.append(('own-view', t.permute(perm)))
                if nd == 2 and perm == [1, 0]:
                    sym = PatternedTensor((t.to_dense() + t.to_dense().t()).contiguous())
                    rp = repattern(ctx.rng, sym, types)
                    pairs.append(('symmetric-vs-own-transpose', rp.t()))
                    t_sym = rp
                    for (rtol, atol) in [(0.0, 0.0), (0.5, 0.0)]:
                        one_pair(ctx, 'symmetric-vs-own-transpose', t_sym, t_sym.t(), rtol, atol, reqs, meta)
                    pairs.pop()
        from .c09 import share_axes
        pairs.append(('shared-axes', share_axes(ctx.rng, t, random_pt(ctx.rng, types, values=vals, defaults=vals, specials=0.05, max_phys=120))))
        pairs.append(('shared-axes-same', share_axes(ctx.rng, t, repattern(ctx.rng, t, types))))
        for kind, u in pairs:
            for (rtol, atol) in (TOLS if not ctx.quick else [(0.5, 0.0), ctx.rng.choice(TOLS[:3])]):
                one_pair(ctx, kind, t, u, rtol, atol, reqs, meta)
    # operands that represent ONE index type differently around one-element factors (`ptgen.unit_family`), holding the same values on
    # the overlap of their patterns and the default elsewhere (equal), or differing in one stored cell
    import warnings
    for k in range(30 if ctx.quick else 500):
        e, pe, f, pf = ptgen.unit_family(ctx.rng)
        she, shf = tuple(a.numel() for a in pe), tuple(a.numel() for a in pf)
        ne, nf = math.prod(she), math.prod(shf)
        with warnings.catch_warnings():
            warnings.simplefilter('ignore')
            idx_u = PatternedTensor(torch.arange(1, nf + 1, dtype=torch.float64).reshape(shf), pf, (f,), 0.0).to_dense()
            idx_t = PatternedTensor(torch.arange(1, ne + 1, dtype=torch.float64).reshape(she), pe, (e,), 0.0).to_dense()
        both = (idx_u != 0) & (idx_t != 0)
        dense = torch.where(both, torch.tensor([float(ctx.rng.choice([1, 2, 3])) for _ in range(idx_t.numel())], dtype=torch.float64), torch.zeros(()).double())
        tp, up = torch.zeros(ne, dtype=torch.float64), torch.zeros(nf, dtype=torch.float64)
        for cell in range(dense.numel()):
            if both[cell]:
                tp[int(idx_t[cell]) - 1] = dense[cell]; up[int(idx_u[cell]) - 1] = dense[cell]
        t = PatternedTensor(tp.reshape(she), pe, (e,), 0.0)
        u = PatternedTensor(up.reshape(shf), pf, (f,), 0.0)
        one_pair(ctx, 'unit-family-same', t, u, 0.0, 0.0, reqs, meta)
        if nf:
            up2 = up.clone(); up2[ctx.rng.randrange(nf)] += 1.0
            one_pair(ctx, 'unit-family-one-cell', t, PatternedTensor(up2.reshape(shf), pf, (f,), 0.0), 0.5, 0.0, reqs, meta)
    for (case, impl_eq, impl_ac), rep in zip(meta, ctx.driver.ask_many(reqs)):
        if isinstance(rep, Exception): raise rep
        me, se, ma, sa, wf = [x == 'T' for x in rep.split()]
        if not wf:
            raise RuntimeError('generator produced an ill-formed pattern ' + str(case))
        if me != se or ma != sa:
            ctx.disagree('PT.compareModel differs from PT.compareSpec on well-formed operands (the C13 theorem would be false)', case, (me, ma), (se, sa))
        if impl_eq is not None and impl_eq != me:
            ctx.disagree('PT.equalModel vs PatternedTensor.equal', case, impl_eq, me)
        if impl_ac is not None and impl_ac != ma:
            ctx.disagree('PT.allcloseModel vs PatternedTensor.allclose', case, impl_ac, ma)
    ireqs, imeta = ctx.extra.pop('_impl_reqs', []), ctx.extra.pop('_impl_meta', [])
    for (case, impl_eq, impl_ac), rep in zip(imeta, ctx.driver.ask_many(ireqs)):
        if isinstance(rep, Exception): raise rep
        ie, ia, faithful, me, ma = rep.split()
        ctx.evaluations += 1
        ctx.count('impl-model.' + ('theorem-applies' if faithful == 'T' else 'outside-hypothesis'))
        if impl_eq is None and impl_ac is None:
            ctx.count('impl-model.implementation-raised')      # reported as a failure by one_pair (finding D41 when it is the RecursionError of unify)
            continue
        # faithful != 'T': the pair is outside the hypothesis of C13b.compareImpl_eq_compareModel (a unification failed on intersecting
        # patterns — unify is incomplete, C06b — or the model ran out of fuel).  That is a limit of the THEOREM's reach, counted above
        # ('impl-model.outside-hypothesis'), not a disagreement: the library's answer on such a pair is still compared with the model of
        # the algorithm (below) and with the dense specification (one_pair).  (False alarm of sweep 9, thorough tier, seed 3: a tensor
        # against a re-patterned view of itself.)
        if impl_eq is not None and ie != ('T' if impl_eq else 'F'):
            ctx.disagree('Eq.compareImpl (equal with unify/project in place) vs PatternedTensor.equal', case, impl_eq, ie)
        if impl_ac is not None and ia != ('T' if impl_ac else 'F'):
            ctx.disagree('Eq.compareImpl (allclose) vs PatternedTensor.allclose', case, impl_ac, ia)
        if faithful == 'T' and (ie != me or ia != ma):
            ctx.disagree('Eq.compareImpl differs from PT.compareModel on a faithful pair (the C13b theorem would be false)', case, (ie, ia), (me, ma))
    run_multi(ctx)


def one_pair(ctx, kind, t, u, rtol, atol, reqs, meta):
    case = dict(kind=kind, t=ptgen.enc_pt(t), u=ptgen.enc_pt(u), rtol=rtol, atol=atol)
    from .c06 import is_dense
    ctx.case(case, (case['t'], case['u'], rtol, atol) if not (is_dense(t) and is_dense(u)) else None, sample_every=300)
    dt, du = t.to_dense(), u.to_dense()
    want_eq = dt.shape == du.shape and bool(torch.equal(dt, du))
    want_ac = dt.shape == du.shape and bool(torch.allclose(dt, du, rtol=rtol, atol=atol))
    ctx.count(f'{kind}.equal={want_eq}')
    res = {}
    for name, f in (('equal', lambda a, b: a.equal(b)), ('equal-swapped', lambda a, b: b.equal(a)),
                    ('allclose', lambda a, b: a.allclose(b, rtol=rtol, atol=atol))):
        try:
            res[name] = bool(f(t, u))
        except Exception as e:  # noqa
            res[name] = e
            ctx.fail(f'{name} raised {type(e).__name__}: {str(e)[:80]}', case, repr(e), None, tags=['raises', name, type(e).__name__])
    if res.get('equal') is not None and not isinstance(res['equal'], Exception) and res['equal'] != want_eq:
        ctx.fail(f't.equal(u) = {res["equal"]} but torch.equal of the dense tensors = {want_eq}', case, res['equal'], want_eq, tags=['equal', kind])
    if not isinstance(res.get('equal-swapped'), Exception) and not isinstance(res.get('equal'), Exception) and res['equal'] != res['equal-swapped']:
        ctx.fail('equal is not symmetric', case, res['equal'], res['equal-swapped'], tags=['equal-symmetric'])
    if not isinstance(res.get('allclose'), Exception) and res['allclose'] != want_ac:
        ctx.fail(f't.allclose(u, rtol={rtol}, atol={atol}) = {res["allclose"]} but torch.allclose of the dense tensors = {want_ac}', case,
                 res['allclose'], want_ac, tags=['allclose', kind])
    if t.physical.numel() <= 150 and u.physical.numel() <= 150 and math.prod(t.shape) <= 300:
        reqs.append(f'C13.compare {ptgen.enc_pt(t)} {ptgen.enc_pt(u)} {enc_ext(rtol)} {enc_ext(atol)} F')
        meta.append((case, res['equal'] if not isinstance(res.get('equal'), Exception) else None,
                     res['allclose'] if not isinstance(res.get('allclose'), Exception) else None))
        # the transcription of equal/allclose with unify and project in their place (Eq.compareImpl); u's physical axes get identities
        # disjoint from t's, which is what `other.freshen()` establishes
        if not any(k_._numel == 0 for k_ in tuple(t.paxes) + tuple(u.paxes)):
            ids = {}
            def enc(p_, tag):
                pa = enc_list(p_.paxes, lambda k_: f'{ids.setdefault((tag, id(k_)), len(ids))} {k_._numel}')
                def ea(e):
                    from fggs.indices import PhysicalAxis as _P, ProductAxis as _X
                    if isinstance(e, _P): return f'P {ids.setdefault((tag, id(e)), len(ids))} {e._numel}'
                    if isinstance(e, _X): return 'X ' + enc_list(e.factors, ea)
                    return f'S {e.before} {ea(e.term)} {e.after}'
                va = enc_list(p_.vaxes, ea)
                return f'{enc_list(p_.physical.contiguous().reshape(-1).tolist() if p_.physical.numel() else [], enc_ext)} {pa} {va} {enc_ext(float(p_.default))}'
            et, eu = enc(t, 't'), enc(u, 'u')
            ctx.extra.setdefault('_impl_reqs', []).append(f'C13.impl {et} {eu} {enc_ext(rtol)} {enc_ext(atol)} F {len(ids) + 3}')
            ctx.extra.setdefault('_impl_meta', []).append((case, meta[-1][1], meta[-1][2]))


def run_multi(ctx):
    """MultiTensor.allclose: an absent block is a zero block, for tol = 0 and tol > 0"""
    sr = fggs.RealSemiring(dtype=torch.float64)
    shapes = {'x': torch.Size([2]), 'y': torch.Size([])}
    def mt(d):
        m = MultiTensor(shapes, sr)
        for k, v in d.items():
            m[k] = PatternedTensor(torch.tensor(v, dtype=torch.float64))
        return m
    blocks = {'x': [[0., 0.], [0., 1e-9], [1., 0.], None], 'y': [0., 1e-9, 2., None]}
    for bx, by, cx, cy in itertools.product(blocks['x'], blocks['y'], blocks['x'], blocks['y']):
        a = mt({k: v for k, v in (('x', bx), ('y', by)) if v is not None})
        b = mt({k: v for k, v in (('x', cx), ('y', cy)) if v is not None})
        for tol in (0, 1e-6):
            def dense(m):
                return torch.cat([m[k].to_dense().reshape(-1) for k in ('x', 'y')])
            want = bool(torch.allclose(dense(a), dense(b), atol=tol, rtol=0.))
            try:
                got = a.allclose(b, tol)
            except Exception as e:  # noqa
                got = e
            ctx.case(dict(a=[bx, by], b=[cx, cy], tol=tol), ('multi', str(bx), str(by), str(cx), str(cy), tol), sample_every=100)
            ctx.count('multi')
            if got != want:
                ctx.fail(f'MultiTensor.allclose = {got!r}, dense comparison with absent blocks as zero = {want}', dict(a=[bx, by], b=[cx, cy], tol=tol),
                         repr(got), want, tags=['multi-allclose'])


def replay(ctx, rep):
    run(ctx)
    return bool(ctx.failures or ctx.disagreements)
