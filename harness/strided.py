"""Correspondence streams for the model FggsModel/Strided.lean (Sd.*): `Axis.stride(subst)` + `project` (fggs/indices.py) and
`reduce_equation` / `post_einsum` (fggs/equation.py).  The metadata of the views the library builds (sizes, strides, storage offset), the
reduced equation, the unsqueeze positions and the output shape are compared exactly; the property-level statement (the reduced einsum,
re-expanded, equals the einsum of the original operands; the projected view reads the elements the pattern says) is evaluated on the
implementation with torch as the oracle."""
import math, itertools
import torch
import torch_semiring_einsum as tse
from fggs.indices import PhysicalAxis, ProductAxis, SumAxis, productAxis, unitAxis, project
from fggs.equation import reduce_equation, post_einsum
from . import ptgen
from .common import enc_list


def enc_view(t):
    return f'{enc_list(list(t.shape))} {enc_list(list(t.stride()))} {t.storage_offset()}'


def odd_tensor(rng, shape):
    """a float64 tensor of the given shape with distinct entries and a random layout: permuted base, strided slices (step 2), storage offset"""
    nd = len(shape)
    perm = list(range(nd)); rng.shuffle(perm)
    steps = [rng.choice([1, 1, 2]) for _ in range(nd)]
    base_shape = [shape[perm[i]] * steps[perm[i]] for i in range(nd)]
    off = rng.choice([0, 0, 3])
    n = math.prod(base_shape) if base_shape else 1
    store = torch.arange(float(n + off), dtype=torch.float64) + 1.0
    base = store[off:].reshape(base_shape) if nd else store[off:off + 1].reshape(())
    inv = [perm.index(i) for i in range(nd)]
    t = base.permute(inv) if nd else base
    sl = tuple(slice(None, None, steps[i]) for i in range(nd))
    t = t[sl] if nd else t
    assert list(t.shape) == list(shape), (t.shape, shape)
    return t


def run_project(ctx, n):
    reqs, meta = [], []
    for k in range(n):
        nd = ctx.rng.choice([1, 1, 2, 2, 3])
        types = [ptgen.random_type(ctx.rng, depth=ctx.rng.choice([1, 2, 2, 3]), sizes=[1, 2, 3, 2, 4], p_unit_sum=0.1 if k % 3 == 0 else 0.0)
                 for _ in range(nd)]
        if math.prod(ptgen.ty_numel(t) for t in types) > 1500:
            continue
        pool1, pool2 = [], []
        es = [ptgen.axis_for(ctx.rng, ty, pool1, p_dense=0.2, p_share=0.35) for ty in types]
        fs = [ptgen.axis_for(ctx.rng, ty, pool2, p_dense=0.2, p_share=0.35) for ty in types]
        subst = {}
        mode = ctx.rng.choice(['empty', 'unified', 'unified'])
        if mode == 'unified':
            try:
                ok = all(e.unify(f, subst) for e, f in zip(es, fs))
            except Exception:  # noqa  (D41: recorded under C06)
                continue
            if not ok:
                subst = {}; mode = 'empty'
        try:
            if any(k_._numel == 0 for e in es + fs for k_ in e.fv(subst)):
                continue
        except RecursionError:  # D41 (recorded under C06/C13): unify has no occurs check and returned a cyclic substitution
            ctx.count('project.cyclic-subst-skipped')
            continue
        ids = {}
        vaxes = es
        virt = odd_tensor(ctx.rng, [e.numel() for e in vaxes])
        senc = enc_list(list(subst.items()), lambda kv: f'{ids.setdefault(id(kv[0]), len(ids))} {ptgen.enc_axis(kv[1], ids)}')
        venc = enc_list(vaxes, lambda e: ptgen.enc_axis(e, ids))
        case = dict(stream='project', virtual=enc_view(virt), vaxes=venc, subst=senc)
        ctx.case(case, ('project', k) if subst or any(not isinstance(e, PhysicalAxis) for e in vaxes) else None, sample_every=200)
        ctx.count(f'project.{mode}')
        try:
            view, paxes = project(virt, None, vaxes, dict(subst))
        except Exception as ex:  # noqa
            ctx.fail(f'project raised {type(ex).__name__}: {str(ex)[:80]}', case, repr(ex), None, tags=['project', 'raises', type(ex).__name__])
            continue
        # property on the implementation: the view, indexed by an assignment of paxes, reads virt at the virtual indices the pattern denotes
        if view.numel() <= 400:
            bad = None
            for idx in itertools.product(*[range(k_._numel) for k_ in paxes]):
                phys = dict(zip(paxes, idx))
                def ev(e):
                    e = e.clone(subst)
                    return ev2(e, phys)
                vi = tuple(ev2(e.clone(dict(subst)), phys) for e in vaxes)
                if view[idx].item() != virt[vi].item():
                    bad = (idx, vi); break
            if bad:
                ctx.fail('project: the view does not read the element of the virtual tensor that the pattern denotes', case, bad, None, tags=['project', 'value'])
        want = f'{enc_view(view)} {enc_list(list(paxes), lambda k_: str(ids.setdefault(id(k_), len(ids))) + " " + str(k_._numel))}'
        reqs.append(f'C07.project {enc_view(virt)} {venc} {senc}')
        meta.append((case, want))
    for (case, want), rep in zip(meta, ctx.driver.ask_many(reqs)):
        if isinstance(rep, Exception):
            raise rep
        ctx.evaluations += 1
        if rep.split() != want.split():
            ctx.disagree('Sd.project: view metadata (sizes, strides, offset) and physical axes', case, want, rep)


def ev2(e, phys):
    if isinstance(e, PhysicalAxis):
        return phys[e]
    if isinstance(e, ProductAxis):
        acc = 0
        for f in e.factors:
            acc = acc * f.numel() + ev2(f, phys)
        return acc
    return e.before + ev2(e.term, phys)


def run_reduce(ctx, n):
    reqs, meta = [], []
    letters = 'abcdef'
    for k in range(n):
        nv = ctx.rng.choice([1, 2, 2, 3, 3, 4])
        sizes = [ctx.rng.choice([1, 2, 3, 2]) for _ in range(nv)]
        nops = ctx.rng.choice([1, 2, 2, 3])
        ins = []
        for _ in range(nops):
            m = ctx.rng.randint(0, nv)
            ins.append(ctx.rng.sample(range(nv), m))
        used = sorted({v for l in ins for v in l})
        if not used:
            continue
        sumfree = ctx.rng.random() < 0.85
        out = list(used); ctx.rng.shuffle(out)
        if not sumfree and len(out) > 0:
            out = out[:ctx.rng.randint(0, len(out) - 1)]
        eqs = ','.join(''.join(letters[v] for v in l) for l in ins) + '->' + ''.join(letters[v] for v in out)
        compiled = tse.compile_equation(eqs)
        tensors = []
        for l in ins:
            shape = [sizes[v] for v in l]
            # every dimension: real data, or broadcast (stride 0) from a size-1 dimension
            bc = [ctx.rng.random() < 0.4 for _ in l]
            t = odd_tensor(ctx.rng, [1 if b else s for b, s in zip(bc, shape)])
            t = t.expand(*shape) if l else t
            tensors.append(t)
        case = dict(stream='reduce', equation=eqs, operands=[enc_view(t) for t in tensors])
        nbc = sum(1 for t in tensors for s, st in zip(t.shape, t.stride()) if st == 0 or s == 1)
        ctx.case(case, ('reduce', k) if nbc and sumfree else None, sample_every=200)
        ctx.count('reduce.' + ('sum-free' if len(compiled.output_variables) == compiled.num_variables else 'with-sum'))
        try:
            views, req, unsq, oshape = reduce_equation(compiled, list(tensors))
            res = tse.real_einsum_forward(req, *views) if hasattr(tse, 'real_einsum_forward') else tse.einsum(req, *views)
            post = post_einsum(res, unsq, oshape)
        except Exception as ex:  # noqa
            ctx.fail(f'reduce_equation / post_einsum raised {type(ex).__name__}: {str(ex)[:80]}', case, repr(ex), None,
                     tags=['reduce', 'raises', type(ex).__name__])
            continue
        ref = torch.einsum(eqs, *tensors)
        if post.shape != ref.shape or not torch.equal(post, ref):
            ctx.fail('post_einsum(einsum(reduce_equation(...))) differs from the einsum of the original operands', case,
                     post.tolist(), ref.tolist(), tags=['reduce', 'value'])
        if unsq:
            ctx.count('reduce.variables-removed')
        rv = tse.compile_equation  # noqa
        # metadata of the re-expanded result when the reduced einsum returns a contiguous tensor (torch_semiring_einsum does)
        want = (f'{enc_list(list(views), enc_view)} {enc_list(req.input_variables, enc_list)} {enc_list(req.output_variables)} {req.num_variables} '
                f'{enc_list(list(unsq))} {enc_list(list(oshape))} {enc_view(post_einsum(res.contiguous(), unsq, oshape))}')
        reqs.append(f'C07.reduce {enc_list(compiled.input_variables, enc_list)} {enc_list(compiled.output_variables)} {compiled.num_variables} '
                    f'{enc_list(tensors, enc_view)}')
        meta.append((case, want))
    for (case, want), rep in zip(meta, ctx.driver.ask_many(reqs)):
        if isinstance(rep, Exception):
            raise rep
        ctx.evaluations += 1
        toks = rep.split()
        wf, ok = toks[-2], toks[-1]
        rep = ' '.join(toks[:-2])
        ctx.count('reduce.theorem-applies' if wf == 'T' else 'reduce.outside-WF')
        if wf != 'T':
            ctx.disagree('Sd.wfB: a job of the reduce stream is outside the hypothesis WF of C07e.reduce_correct', case, 'T', wf)
        if ok != 'T':
            ctx.disagree('Sd.jobOk: the executable statement of C07e.reduce_correct is false on this job', case, 'T', ok)
        if rep.split() != want.split():
            ctx.disagree('Sd.reduceEquation / Sd.postEinsum: views, reduced equation, unsqueeze positions, output shape, result metadata', case, want, rep)
