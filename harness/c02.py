"""C02 — recursive grammars.  Bool and Viterbi (integer log-weights): the exact least fixed point is
computed by the Lean model (Kleene iteration to stability = sums over derivations of bounded depth)
and every method must return it.  Real/Log: a certified enclosure [lo, hi] of the least fixed point
(lo = Kleene iteration rounded down, hi = a value with F(hi) <= hi, both checked in exact rational
arithmetic by the model) must contain the implementation's value.  Warnings: an unconverged value must
never be returned silently.  method='linear' raises ValueError exactly on non-linear SCCs."""
import math, warnings
import torch
import fggs
from . import gen, semgen
from .common import enc_ext, enc_list, Toks

RULE = ('dense linearly recursive systems (2..4 mutually recursive nonterminals, several rules per (lhs, nonterminal) pair, self-loops present or absent: fill-in); recursive grammar shapes: <= 3 mutually recursive nonterminals, <= 2 rules each, linear and non-linear rules, domain sizes 1..2, '
        'weights {0,1/8,1/4,1/2,1} (Real/Log; divergent systems are detected by the model and skipped), {0,1} (Bool), '
        '{-inf,0,-1,-2,-3} (Viterbi, so cycles of weight exactly one and ties occur); x method {fixed-point, newton, linear} x '
        '(tol, kmax) in {(1e-8,1000),(1e-8,0),(1e-8,1),(1e-8,2)}; non-trivial = some rule uses a nonterminal of its own SCC')
ASSUMPTIONS = ['rounding is outside the model: Real/Log values are compared with a certified rational enclosure inflated by 1e-6 relative',
               'the convergence rate as tol -> 0 is observed at tol=1e-8 only']

REAL_W = [0.0, 0.125, 0.25, 0.25, 0.5, 0.0625]
VIT_W = [-math.inf, 0.0, -1.0, -2.0, -3.0]


def gen_shape(rng):
    linear = rng.random() < 0.25
    shape = gen.random_shape(rng, recursive=True, linear=linear, n_nts=(1, 3), rules_per_nt=(1, 2), n_nodes=(0, 1), n_edges=(1, 4),
                             max_arity=2, start_arity=(0, 1), dom_sizes=(1, 2), p_isolated=0.1, p_ruleless=0.0,
                             p_rep_ext=0.3 if rng.random() < 0.4 else 0.0,
                             weights=lambda r: r.choice(REAL_W), max_cells=64)
    shape['vweights'] = {i: [rng.choice(VIT_W) for _ in w] for i, w in shape['weights'].items()}
    shape['bweights'] = {i: [float(rng.random() < 0.7) for _ in w] for i, w in shape['weights'].items()}
    return shape


def gen_linear_system(rng):
    """a dense linearly recursive system: N mutually recursive nonterminals, X_i -> c_i and X_i -> a X_j for many pairs
    (i, j) - several rules for the same pair, self-loops present or absent - so that block elimination creates fill-in
    (diagonal blocks that exist only after an earlier elimination step) and coefficients must be accumulated"""
    N = rng.choice([2, 3, 3, 4])
    dom = rng.choice([1, 2])
    unary = rng.random() < 0.5
    ty = [0] if unary else []
    nts = [list(ty) for _ in range(N)]
    terms, weights, rules = [], {}, []
    def term(arity, vals):
        terms.append([0] * arity)
        weights[len(terms) - 1] = vals
        return len(terms) - 1
    cells = dom if unary else 1
    for i in range(N):
        c = term(len(ty), [rng.choice([0.0, 0.5, 1.0, 0.25]) for _ in range(cells)])
        rules.append(dict(lhs=i, nodes=list(ty), ext=list(range(len(ty))), edges=[('t', c, list(range(len(ty))))]))
        for j in range(N):
            if i == j and rng.random() < 0.5:
                continue          # no direct self-loop: a diagonal block can then only arise by fill-in
            for _ in range(rng.choice([0, 1, 1, 2])):
                if unary and rng.random() < 0.5:
                    # X_i(u) -> a(u, v) X_j(v)
                    a = term(2, [rng.choice([0.0, 0.0625, 0.125, 0.03125]) for _ in range(dom * dom)])
                    rules.append(dict(lhs=i, nodes=[0, 0], ext=[0], edges=[('t', a, [0, 1]), ('n', j, [1])]))
                else:
                    a = term(len(ty), [rng.choice([0.0625, 0.125, 0.03125, 0.25]) for _ in range(cells)])
                    rules.append(dict(lhs=i, nodes=list(ty), ext=list(range(len(ty))),
                                      edges=[('t', a, list(range(len(ty)))), ('n', j, list(range(len(ty))))]))
    rng.shuffle(rules)
    shape = dict(nls=[dom], terms=terms, nts=nts, start=0, rules=rules, weights=weights)
    shape['vweights'] = {i: [rng.choice(VIT_W) for _ in w] for i, w in weights.items()}
    shape['bweights'] = {i: [float(x != 0) for x in w] for i, w in weights.items()}
    return shape


def gen_pattern_growing(rng):
    """a transitive-closure grammar  S -> X(a,b);  X(i,i) -> [p(i)];  X(i,j) -> X(i,k) t(k,j)  (sometimes X(i,j) -> t(i,k) X(k,j)):
    the value of X is a DIAGONAL tensor after one step of fixed-point iteration (repeated external node) and dense from the second
    step on, so the sparsity pattern of an iterate changes size and `x0.copy_(x1)` cannot reuse x0's storage"""
    dom = rng.choice([2, 2, 3])
    terms, weights = [[0, 0]], {0: [rng.choice([0.0, 0.0625, 0.125, 0.25, 0.03125]) for _ in range(dom * dom)]}
    rules = [dict(lhs=0, nodes=[0, 0], ext=[], edges=[('n', 1, [0, 1])])]
    if rng.random() < 0.5:
        terms.append([0]); weights[1] = [rng.choice([1.0, 0.5, 0.25]) for _ in range(dom)]
        rules.append(dict(lhs=1, nodes=[0], ext=[0, 0], edges=[('t', 1, [0])]))
    else:
        rules.append(dict(lhs=1, nodes=[0], ext=[0, 0], edges=[]))
    if rng.random() < 0.5:
        rules.append(dict(lhs=1, nodes=[0, 0, 0], ext=[0, 1], edges=[('n', 1, [0, 2]), ('t', 0, [2, 1])]))
    else:
        rules.append(dict(lhs=1, nodes=[0, 0, 0], ext=[0, 1], edges=[('t', 0, [0, 2]), ('n', 1, [2, 1])]))
    rng.shuffle(rules)
    shape = dict(nls=[dom], terms=terms, nts=[[], [0, 0]], start=0, rules=rules, weights=weights)
    shape['vweights'] = {i: [rng.choice(VIT_W) for _ in w] for i, w in weights.items()}
    shape['bweights'] = {i: [float(x != 0) for x in w] for i, w in weights.items()}
    return shape


def sccs_and_linearity(shape):
    """SCCs of the nonterminal graph and whether every rule has <= 1 rhs edge of its own SCC"""
    n = len(shape['nts'])
    adj = {i: set() for i in range(n)}
    for r in shape['rules']:
        for k, j, _ in r['edges']:
            if k == 'n':
                adj[r['lhs']].add(j)
    reach = {i: {i} for i in range(n)}
    changed = True
    while changed:
        changed = False
        for i in range(n):
            new = set().union(*[reach[j] for j in adj[i]]) | reach[i]
            if new != reach[i]:
                reach[i] = new; changed = True
    same = lambda a, b: a in reach[b] and b in reach[a]
    recursive = any(any(k == 'n' and same(r['lhs'], j) for k, j, _ in r['edges']) for r in shape['rules'])
    linear = all(sum(1 for k, j, _ in r['edges'] if k == 'n' and same(r['lhs'], j)) <= 1 for r in shape['rules'])
    return recursive, linear


def run(ctx):
    n = 50 if ctx.quick else 900
    done = 0
    attempts = 0
    while done < n and attempts < 30 * n:
        attempts += 1
        shape = gen_pattern_growing(ctx.rng) if attempts % 7 == 0 else gen_linear_system(ctx.rng) if attempts % 3 == 0 else gen_shape(ctx.rng)
        recursive, linear = sccs_and_linearity(shape)
        if not recursive:
            continue
        done += 1
        case = dict(shape={k: v for k, v in shape.items() if not k.endswith('weights') or k == 'weights'},
                    vweights=shape['vweights'], bweights=shape['bweights'])
        ctx.case(case, repr(shape), sample_every=40)
        ctx.count('linear' if linear else 'nonlinear')
        run_exact(ctx, case, shape, 'bool', linear)
        run_exact(ctx, case, shape, 'viterbi', linear)
        run_real(ctx, case, shape, linear)


def call(fgg, **opts):
    with warnings.catch_warnings(record=True) as w:
        warnings.simplefilter('always')
        try:
            res = fggs.sum_products(fgg, **opts)
            return res, [str(x.message) for x in w], None
        except Exception as e:  # noqa
            return None, [str(x.message) for x in w], e


def run_exact(ctx, case, shape, name, linear):
    sh = dict(shape, weights=shape['vweights' if name == 'viterbi' else 'bweights'])
    rep = ctx.driver.ask(f'C02.iterate {name} {gen.enc_shape(sh)} 200')
    t = Toks(rep)
    stable = t.bool(); k = t.nat()
    lfp = semgen.parse_val(t, (lambda: t.next() == 'T') if name == 'bool' else None)
    if not stable:
        ctx.count(f'{name}.model-not-stable')
        return
    ctx.count(f'{name}.kleene-steps={min(k, 9)}')
    fgg, info = semgen.build(sh, name, torch.float64)
    for method in ('fixed-point', 'newton', 'linear'):
        for kmax in (1000, 0, 1, 2, 3):
            res, warns, err = call(fgg, method=method, semiring=semgen.semiring_of(name, torch.float64), kmax=kmax, tol=1e-8)
            cfg = dict(semiring=name, method=method, kmax=kmax)
            ctx.evaluations += 1
            pipeline(ctx, case, sh, name, method, kmax, res, warns, err, info)
            ctx.count(f'{name}.{method}.' + ('raise' if err else 'warn' if warns else 'ok'))
            if err is not None:
                if method == 'linear' and isinstance(err, ValueError) and not linear:
                    continue
                ctx.fail(f'sum_products raised {type(err).__name__}: {err}', dict(case, config=cfg), repr(err), None,
                         tags=['raises', name, method, type(err).__name__])
                continue
            if method == 'linear' and not linear:
                ctx.fail('method="linear" did not raise ValueError on a grammar that is not linearly recursive', dict(case, config=cfg),
                         'returned', 'ValueError', tags=['linear-no-error', name])
                continue
            missing = [str(x) for x in info['XL'] if x not in res]
            if missing:
                ctx.fail('sum_products has no entry for some nonterminal', dict(case, config=cfg), missing, None, tags=['missing-entry', name])
                continue
            out = [semgen.dense_list(res[x]) for x in info['XL']]
            ok = all(semgen.val_matches(o, s, name, torch.float64) for o, s in zip(out, lfp))
            if not ok and not warns:
                ctx.fail(f'{name}/{method} (kmax={kmax}) returned a value that is not the least fixed point, without a warning',
                         dict(case, config=cfg), out, [[str(c) for c in s] if s is not None else None for s in lfp],
                         tags=['not-lfp', name, method, f'kmax={kmax}'])


def pipeline(ctx, case, sh, name, method, kmax, res, warns, err, info):
    """the model of the driver loop (`Pipe.sumProducts`: SCC order by the Tarjan model, per-component method downgrade,
    fixed_point with its budget and warning, linear with its ValueError) against the implementation, outcome by outcome:
    exception, warning flag, and the returned value cell by cell - also when it is an unconverged iterate"""
    rep = ctx.driver.ask(f'P.sumProducts {name} {gen.enc_shape(sh)} {method} {kmax}')
    t = Toks(rep)
    cfg = dict(semiring=name, method=method, kmax=kmax)
    if t.next() == 'raise':
        ctx.count(f'pipeline.{name}.{method}.raise')
        if not isinstance(err, ValueError):
            ctx.disagree('Pipe.sumProducts raises ValueError (a rule with two edges in its own component), sum_products does not',
                         dict(case, config=cfg), repr(err) if err else 'returned', 'ValueError')
        return
    warned = t.bool(); unmodelled = t.bool()
    val = semgen.parse_val(t, (lambda: t.next() == 'T') if name == 'bool' else None)
    if unmodelled:
        # some component needs Newton's iteration proper: the model `Nw.sumProductsN` (Newton step with the two maximum clamps, the
        # linear system J(x)·d + (F0 - x) solved by the elimination loop, budget and warning of the for/else loop)
        rep = ctx.driver.ask(f'P.sumProductsN {name} {gen.enc_shape(sh)} {method} {kmax}')
        t = Toks(rep)
        if t.next() == 'raise':
            ctx.disagree('Nw.sumProductsN raises, sum_products does not', dict(case, config=cfg), repr(err) if err else 'returned', rep[:100])
            return
        warned = t.bool(); t.bool()
        val = semgen.parse_val(t, (lambda: t.next() == 'T') if name == 'bool' else None)
        ctx.count(f'pipeline.{name}.{method}.newton-proper.' + ('warn' if warned else 'ok'))
    if err is not None:
        ctx.disagree(f'sum_products raised {type(err).__name__}, Pipe.sumProducts returns a value', dict(case, config=cfg), repr(err), rep[:200])
        return
    ctx.count(f'pipeline.{name}.{method}.' + ('warn' if warned else 'ok'))
    if bool(warns) != warned:
        ctx.disagree(f'warning flag: sum_products {"warned" if warns else "did not warn"}, Pipe.sumProducts {"warns" if warned else "does not"}',
                     dict(case, config=cfg), warns, warned)
    missing = [str(x) for x in info['XL'] if x not in res]
    if missing:
        ctx.fail('sum_products has no entry for some nonterminal', dict(case, config=cfg), missing, None, tags=['missing-entry', name])
        return
    out = [semgen.dense_list(res[x]) for x in info['XL']]
    if not all(semgen.val_matches(o, s, name, torch.float64) for o, s in zip(out, val)):
        ctx.disagree('value: sum_products differs from Pipe.sumProducts (same method, same budget)', dict(case, config=cfg), out,
                     [[str(c) for c in s] if s is not None else None for s in val])


def stopping_rule(ctx, case, shape):
    """fixed-point iteration in the Real semiring stops at the FIRST iterate that is within `tol` of its predecessor in every cell,
    absolutely (`MultiTensor.allclose`: atol=tol, rtol=0), or warns after kmax iterations: the driver-loop model run with that tolerant
    comparison (`P.sumProductsTol`, exact rational iterates) must stop at the same iterate — same values, same warning flag.  Runs
    whose stopping decision is borderline (the model decides differently for tol(1 - 1e-6) and tol(1 + 1e-6)) are skipped."""
    from fractions import Fraction
    for method, tol, kmax in (('fixed-point', 1e-2, 40), ('fixed-point', 1e-3, 40), ('newton', 1e-3, 5)):
        fgg, info = semgen.build(shape, 'real', torch.float64)
        res, warns, err = call(fgg, method=method, semiring=semgen.semiring_of('real', torch.float64), kmax=kmax, tol=tol)
        if err is not None:
            continue        # reported by the main stream
        T = Fraction(tol)
        # Newton's method proper (the semiring Newton step with the two maximum_ clamps, model Nw.newton) is run by P.sumProductsNTol
        op = 'P.sumProductsTol' if method == 'fixed-point' else 'P.sumProductsNTol'
        reps = ctx.driver.ask_many([f'{op} {gen.enc_shape(shape)} {method} {kmax} {T * f}' for f in (Fraction(999999, 1000000), Fraction(1000001, 1000000))])
        if any(isinstance(r, Exception) for r in reps) or reps[0] != reps[1] or not reps[0].startswith('ok'):
            ctx.count('real.stopping-rule.borderline-or-unmodelled-skipped')
            continue
        t = Toks(reps[0]); t.next()
        mwarn, unmod = t.bool(), t.bool()
        if unmod:
            ctx.count('real.stopping-rule.borderline-or-unmodelled-skipped')
            continue
        model = semgen.parse_val(t)
        ctx.evaluations += 1
        ctx.count(f'real.stopping-rule.{method}.' + ('warned' if mwarn else 'stopped'))
        cfg = dict(semiring='real', method=method, kmax=kmax, tol=tol)
        if bool(warns) != mwarn:
            ctx.fail(f'{method} (tol={tol}, kmax={kmax}): the library ' + ('warns' if warns else 'does not warn') + ', the iteration with the absolute stopping test ' +
                     ('runs out of budget' if mwarn else 'stops within the budget'), dict(case, config=cfg), bool(warns), mwarn, tags=['stopping-rule', 'warning'])
            continue
        out = [semgen.dense_list(res[x]) if x in res else None for x in info['XL']]
        bad = False
        for o, m in zip(out, model):
            if o is None or m is None:
                bad = bad or not ((o is None or all(c == 0 for c in o)) and (m is None or all(c == 0 for c in m)))
            else:
                bad = bad or len(o) != len(m) or not all((isinstance(c, float) and a == c) or (not isinstance(c, float) and abs(a - float(c)) <= 1e-9 * max(1.0, abs(float(c)))) for a, c in zip(o, m))
        if bad:
            ctx.fail(f'{method} (tol={tol}, kmax={kmax}) does not return the iterate at which the absolute stopping test first holds (model of the iteration, exact rationals)',
                     dict(case, config=cfg), out, [None if m is None else [str(c) for c in m] for m in model], tags=['stopping-rule', 'value'])


def run_real(ctx, case, shape, linear):
    """Real and Log against a certified enclosure"""
    zero = enc_list([None] * len(shape['nts']), lambda _: 'none')
    rep = ctx.driver.ask(f'C02.enclose {gen.enc_shape(shape)} {zero} 1200 60')
    t = Toks(rep)
    t.bool(); t.bool()
    lo = semgen.parse_val(t)
    try:
        mx = max([float(c) for v in lo if v is not None for c in v] + [0.0])
    except OverflowError:
        mx = math.inf
    if mx > 50:
        ctx.count('real.divergent-skipped')
        return
    # find a certified upper bound by inflating lo
    hi = None
    # level of a nonterminal = length of the longest chain of components below it: a nonterminal that SUMS many entries of a lower one
    # (S -> X(a,b)) needs a larger absolute inflation than the entries it sums, so the inflation grows geometrically with the level
    nn = len(shape['nts'])
    adj = {i: {j for r in shape['rules'] if r['lhs'] == i for k_, j, _ in r['edges'] if k_ == 'n'} for i in range(nn)}
    reach = {i: {i} for i in range(nn)}
    for _ in range(nn):
        for i in range(nn):
            reach[i] |= set().union(*[reach[j] for j in adj[i]]) if adj[i] else set()
    level = {}
    def lev(i, seen=()):
        if i not in level:
            below = [j for j in reach[i] if i not in reach[j]]
            level[i] = 1 + max([lev(j) for j in below], default=-1)
        return level[i]
    for eta0 in (1e-9, 1e-6, 1e-3, 1e-1, 1e-10, 1e-7, 1e-4):
        K = 1.0 if eta0 in (1e-9, 1e-6, 1e-3, 1e-1) else 100.0
        cand = [[float(c) * (1 + eta0 * K ** lev(X)) + eta0 * K ** lev(X) for c in v] if v is not None else None for X, v in enumerate(lo)]
        enc = enc_list(cand, lambda v: 'none' if v is None else 'some ' + enc_list(v, enc_ext))
        r2 = ctx.driver.ask(f'C02.enclose {gen.enc_shape(shape)} {enc} 1 60')
        if r2.split()[0] == 'T':
            hi = cand; break
    if hi is None:
        ctx.count('real.no-certified-upper-bound')
        return
    ctx.count('real.enclosed')
    stopping_rule(ctx, case, shape)
    width = max(h - float(l) for vl, vh in zip(lo, hi) if vl is not None for l, h in zip(vl, vh))
    for name in ('real', 'log'):
        fgg, info = semgen.build(shape, name, torch.float64)
        for method in ('fixed-point', 'newton', 'linear'):
            for kmax in (1000, 0, 1, 2):
                res, warns, err = call(fgg, method=method, semiring=semgen.semiring_of(name, torch.float64), kmax=kmax, tol=1e-8)
                cfg = dict(semiring=name, method=method, kmax=kmax)
                ctx.evaluations += 1
                ctx.count(f'{name}.{method}.' + ('raise' if err else 'warn' if warns else 'ok'))
                if err is not None:
                    if method == 'linear' and isinstance(err, ValueError) and not linear:
                        continue
                    ctx.fail(f'sum_products raised {type(err).__name__}: {err}', dict(case, config=cfg), repr(err), None,
                             tags=['raises', name, method, type(err).__name__])
                    continue
                if method == 'linear' and not linear:
                    ctx.fail('method="linear" did not raise ValueError on a grammar that is not linearly recursive', dict(case, config=cfg),
                             'returned', 'ValueError', tags=['linear-no-error', name])
                    continue
                if any(x not in res for x in info['XL']):
                    ctx.fail('sum_products has no entry for some nonterminal', dict(case, config=cfg), [str(x) for x in info['XL'] if x not in res],
                             None, tags=['missing-entry', name])
                    continue
                out = [semgen.dense_list(res[x]) for x in info['XL']]
                if name == 'log':
                    out = [[math.exp(c) if c > -math.inf else 0.0 for c in v] for v in out]
                slack = 1e-6 + 10 * width
                inside = all(float(l) - slack <= o <= h + slack for vo, vl, vh in zip(out, lo, hi) if vl is not None
                             for o, l, h in zip(vo, vl, vh))
                if not inside and not warns:
                    ctx.fail(f'{name}/{method} (kmax={kmax}) returned a value outside the certified enclosure of the least fixed point, without a warning',
                             dict(case, config=cfg), out, dict(lo=[[str(c) for c in v] if v else None for v in lo], hi=hi),
                             tags=['not-lfp', name, method, f'kmax={kmax}'])


def replay(ctx, rep):
    run(ctx)
    return bool(ctx.failures or ctx.disagreements)
