"""C07 — patterned einsum = semiring einsum of the dense operands.  Signatures with <= 4 index letters and
<= 3 operands of <= 3 dims; operands drawn from the typed pattern generator per index letter (stride-0
expansions, diagonals, zero-size axes, the empty operand list); x {Real, Log, Viterbi, Bool} x requires_grad
on/off.  Oracle: the Lean specification `Es.Job.spec` evaluated on `Ax.PT.dense` of the encoded operands; for
the Viterbi variant the returned pointers are substituted back and must attain the maximum."""
import math, itertools
import torch
import fggs
from fggs.indices import PatternedTensor, einsum, log_viterbi_einsum_forward, VerifInvariantError
from . import ptgen
from .ptgen import random_type, random_pt, ty_numel
from .common import enc_list, Toks, dec_ext

RULE = ('einsum signatures: 0..3 operands of 0..3 dims over <= 4 index letters (incl. a letter repeated inside one operand: trace / diagonal), '
        'random output list (subset of the letters, any order); one index type per letter (depth <= 2, sizes {0,1,2,3}), operands = typed random '
        'patterns incl. broadcast (expand) operands and shared physical axes; x 4 semirings x requires_grad; mv/mm shorthands; '
        'non-trivial = some operand is not dense and at least one index is summed out; strided streams: project on random non-contiguous / '
        'offset virtual tensors with substitutions obtained by unification, reduce_equation / post_einsum on random broadcast operands '
        '(views, reduced equation, unsqueeze positions, output shape compared exactly); representation stream of the patterned einsum')
ASSUMPTIONS = ['torch_semiring_einsum kernels are exercised, not modelled', 'Log: compared through exp within 1e-9 relative']

REAL_V = [0.0, 1.0, 2.0, 0.5, 3.0]
VIT_V = [-math.inf, 0.0, -1.0, -2.0, 1.0]


def gen_job(rng):
    letters = list(range(rng.randint(1, 4)))
    types = {l: random_type(rng, depth=2, sizes=[1, 2, 3, 2, 0] if rng.random() < 0.1 else [1, 2, 3, 2]) for l in letters}
    nops = rng.choice([0, 1, 2, 2, 3])
    ops = []
    for _ in range(nops):
        nd = rng.randint(0, min(3, len(letters)))
        ix = rng.sample(letters, nd)
        if nd >= 2 and rng.random() < 0.15:
            # the same index at two axes of one operand (trace / diagonal: 'ii->', 'iij,j->i'): the two axes are unified
            i, j = rng.sample(range(nd), 2)
            ix[j] = ix[i]
        ops.append(ix)
    used = sorted({l for ix in ops for l in ix})
    out = rng.sample(used, rng.randint(0, len(used))) if used else []
    return types, ops, out


def bcast_along(t, dim):
    """t made constant along `dim` (slice 0 expanded back: a stride-0 physical view)"""
    perm = [dim] + [d for d in range(t.ndim) if d != dim]
    inv = [perm.index(d) for d in range(t.ndim)]
    tp = t.permute(perm) if t.ndim > 1 else t
    e = tp[0].expand(*tp.shape)
    return e.permute(inv) if t.ndim > 1 else e


def run_unit_family(ctx):
    """co-indexed operands that represent ONE index type differently around one-element factors (`ptgen.unit_family`): the
    unification of the two patterns must find their overlap; checked against the dense semiring einsum computed with torch"""
    import warnings
    n = 40 if ctx.quick else 600
    for _ in range(n):
        e, pe, f, pf = ptgen.unit_family(ctx.rng)
        for name in ('real', 'viterbi', 'bool'):
            sr = {'real': fggs.RealSemiring(dtype=torch.float64), 'viterbi': fggs.ViterbiSemiring(dtype=torch.float64), 'bool': fggs.BoolSemiring()}[name]
            zero = sr.from_int(0).item()
            def mk(ax, pax):
                shp = tuple(k.numel() for k in pax)
                if name == 'bool':
                    ph = torch.tensor([ctx.rng.random() < 0.8 for _ in range(math.prod(shp))]).reshape(shp)
                elif name == 'viterbi':
                    ph = torch.tensor([ctx.rng.choice([0.0, -1.0, -2.0, 1.0]) for _ in range(math.prod(shp))], dtype=torch.float64).reshape(shp)
                else:
                    ph = torch.tensor([ctx.rng.choice([1.0, 2.0, 3.0, 0.5]) for _ in range(math.prod(shp))], dtype=torch.float64).reshape(shp)
                return PatternedTensor(ph, pax, (ax,), zero)
            t, u = mk(e, pe), mk(f, pf)
            dt, du = t.to_dense(), u.to_dense()
            for out in (['i'], []):
                case = dict(semiring=name, operands=[ptgen.enc_pt(t), ptgen.enc_pt(u)], inputs=[['i'], ['i']], output=out, family='unit-factor')
                ctx.case(case, ('unit-family', name, case['operands'][0], case['operands'][1], str(out)), sample_every=60)
                ctx.count(f'unit-family.{name}')
                if name == 'real':
                    prod = dt * du; want = prod if out else prod.sum()
                elif name == 'viterbi':
                    prod = torch.nan_to_num(dt + du, nan=-math.inf, neginf=-math.inf, posinf=math.inf); want = prod if out else prod.max()
                else:
                    prod = dt & du; want = prod if out else prod.any()
                try:
                    with torch.no_grad(), warnings.catch_warnings():
                        warnings.simplefilter('ignore')
                        got = einsum([t, u], [['i'], ['i']], out, sr).to_dense()
                except Exception as ex:  # noqa
                    ctx.fail(f'einsum raised {type(ex).__name__}: {str(ex)[:80]}', case, repr(ex), None, tags=['raises', name, 'unit-family'])
                    continue
                if got.shape != want.shape or not bool(((got == want) | ((got != got) & (want != want))).all()):
                    ctx.fail('einsum of two operands over one index: the result is not the semiring einsum of the dense operands '
                             '(the overlap of the two patterns was not found)', case, got.tolist(), want.tolist(), tags=['value', name, 'unit-family'])


def run_impl_model(ctx):
    """the model `Ei.einsum` of the patterned einsum (unify the co-indexed axes, re-index every operand over the axes that remain
    free, physical einsum, pattern of the output indices) predicts the REPRESENTATION of the result — physical axes, virtual axes,
    physical values — and is compared with it token by token up to a renaming of the physical axes (operands with the semiring
    zero as default and no axis of size 0: what the model covers)"""
    from .unifygen import canon
    from .common import enc_ext
    reqs, meta = [], []
    for k in range(60 if ctx.quick else 1200):
        types, ops_ix, out = gen_job(ctx.rng)
        if not ops_ix or math.prod([ty_numel(t) for t in types.values()] + [1]) > 300:
            continue
        for name in ('real', 'viterbi', 'bool'):
            sr = {'real': fggs.RealSemiring(dtype=torch.float64), 'viterbi': fggs.ViterbiSemiring(dtype=torch.float64), 'bool': fggs.BoolSemiring()}[name]
            zero = sr.from_int(0).item()
            if name == 'bool':
                operands = [random_pt(ctx.rng, [types[l] for l in ix], bool_=True) for ix in ops_ix]
            elif name == 'viterbi':
                operands = [random_pt(ctx.rng, [types[l] for l in ix], values=[0.0, -1.0, -2.0, 1.0], defaults=[-math.inf], specials=0.0) for ix in ops_ix]
            else:
                operands = [random_pt(ctx.rng, [types[l] for l in ix], values=[0.0, 1.0, 2.0, 3.0, 0.5], defaults=[0.0], specials=0.0) for ix in ops_ix]
            for t in operands:
                t.default = zero
            if any(k_._numel == 0 for t in operands for k_ in t.paxes):
                continue
            ids = {}
            def enc(p_):
                pa = enc_list(p_.paxes, lambda k_: f'{ids.setdefault(id(k_), len(ids))} {k_._numel}')
                va = enc_list(p_.vaxes, lambda e: ptgen.enc_axis(e, ids))
                ph = p_.physical.to(torch.float64) if p_.physical.dtype == torch.bool else p_.physical
                return f'{enc_list(ph.contiguous().reshape(-1).tolist() if ph.numel() else [], enc_ext)} {pa} {va} {enc_ext(float(p_.default))}'
            encs = [enc(t) for t in operands]
            case = dict(semiring=name, operands=encs, inputs=ops_ix, output=out, stream='impl-model')
            try:
                with torch.no_grad():
                    r = einsum(operands, ops_ix, out, sr)
            except Exception as ex:  # noqa
                ctx.fail(f'einsum raised {type(ex).__name__}: {str(ex)[:80]}', case, repr(ex), None, tags=['raises', name])
                continue
            job = enc_list(list(zip(encs, ops_ix)), lambda p_: f'{p_[0]} {enc_list(p_[1])}') + ' ' + enc_list(out)
            ids2 = dict(ids)
            pa = enc_list(r.paxes, lambda k_: f'P {ids2.setdefault(id(k_), len(ids2))} {k_._numel}')
            va = enc_list(r.vaxes, lambda e: ptgen.enc_axis(e, ids2))
            want = f'{enc_list(r.physical.to(torch.float64).contiguous().reshape(-1).tolist(), enc_ext)} {pa} {va} {enc_ext(float(r.default))}'
            reqs.append(f'C07.impl {name} {job} {len(ids) + 5}')
            meta.append((case, want))
            ctx.count(f'impl-model.{name}')
    for (case, want), rep in zip(meta, ctx.driver.ask_many(reqs)):
        if isinstance(rep, Exception):
            raise rep
        toks = rep.split()
        i = 0; L = int(toks[i]); phys = toks[i + 1:i + 1 + L]; i += 1 + L
        P = int(toks[i]); pax = toks[i + 1:i + 1 + 2 * P]; i += 1 + 2 * P
        mp = [str(L)] + phys + [str(P)] + sum((['P', pax[2 * j], pax[2 * j + 1]] for j in range(P)), []) + toks[i:-3]
        unified, resolved = toks[-3], toks[-2]
        ctx.evaluations += 1
        ctx.count('impl-model.' + ('all-unified' if unified == 'T' else 'some-unification-failed'))
        if canon(mp) != canon(want.split()):
            ctx.disagree('Ei.einsum (model of the patterned einsum): representation of the result', case, want, ' '.join(mp))
        elif toks[-1] != 'T':
            ctx.disagree('Ei.einsum: the model\'s result is not well formed (PT.wf)', case, want, rep)
        elif resolved != 'T':
            # the decidable side condition of the theorem C07.einsum_dense (fuel resolves every clone, no axis bound twice)
            ctx.disagree('Ei.resolved is false for this job: the theorem C07.einsum_dense does not cover it', case, None, rep[-40:])


def run(ctx):
    run_unit_family(ctx)
    run_impl_model(ctx)
    from . import strided
    strided.run_project(ctx, 150 if ctx.quick else 3000)
    strided.run_reduce(ctx, 200 if ctx.quick else 4000)
    n = 150 if ctx.quick else 2000
    reqs, meta = [], []
    for k in range(n):
        types, ops_ix, out = gen_job(ctx.rng)
        alias = None
        if k % 4 == 0:
            # the same PatternedTensor object used as several operands (aliasing of physical axes across operands)
            ty = random_type(ctx.rng, depth=1, sizes=[2, 3, 2])
            types = {0: ty, 1: ty, 2: ty}
            ops_ix, out = ctx.rng.choice([([[0, 1], [1, 2]], [0, 2]), ([[0, 1], [0, 1]], [0]), ([[0, 1], [1, 0]], []), ([[0, 1], [1, 2], [2, 0]], [1])])
            alias = True
        sumfree_bcast = k % 10 == 3
        if sumfree_bcast:
            # sum-free job over three vector operands, two or three of them stride-0 broadcasts, output in a permuted order: the
            # no-grad path drops the broadcast dimensions before the einsum and has to put them back at the right positions
            ty = random_type(ctx.rng, depth=0, sizes=[2, 3, 2]) if ctx.rng.random() < 0.6 else None
            types = {l: (ty if ty is not None else random_type(ctx.rng, depth=0, sizes=[2, 3])) for l in range(3)}
            ops_ix = [[0], [1], [2]]
            out = [0, 1, 2]; ctx.rng.shuffle(out)
            alias = None
        if math.prod([ty_numel(t) for t in types.values()] + [1]) > 3000:
            continue
        for name in ('real', 'log', 'viterbi', 'bool'):
            sr = {'real': fggs.RealSemiring(dtype=torch.float64), 'log': fggs.LogSemiring(dtype=torch.float64),
                  'viterbi': fggs.ViterbiSemiring(dtype=torch.float64), 'bool': fggs.BoolSemiring()}[name]
            zero = sr.from_int(0).item()
            if name == 'bool':
                operands = [random_pt(ctx.rng, [types[l] for l in ix], bool_=True) for ix in ops_ix]
            elif name == 'viterbi':
                operands = [random_pt(ctx.rng, [types[l] for l in ix], values=VIT_V, defaults=[-math.inf, -math.inf, 0.0, -1.0], specials=0.05)
                            for ix in ops_ix]
            else:
                # a quarter of the jobs: infinite entries in SOME operands only (inf * 0 = 0 in the semiring, whichever operand
                # holds the inf and whichever the 0)
                infs = k % 4 == 1
                operands = [random_pt(ctx.rng, [types[l] for l in ix], values=REAL_V, defaults=[0.0, 0.0, 1.0, 2.0],
                                      specials=(0.2 if infs and ctx.rng.random() < 0.5 else 0.0), special_values=(math.inf, math.inf, 0.0))
                            for ix in ops_ix]
            if alias:
                operands = [operands[0]] * len(operands)
            if sumfree_bcast:
                which = ctx.rng.sample(range(3), ctx.rng.choice([2, 3]))
                for i in which:
                    t = operands[i]
                    if t.ndim >= 1 and t.shape[0] > 1:
                        operands[i] = t[0].expand(*t.shape)
                ctx.count('sumfree-broadcast-permuted-output')
            # a broadcast (stride-0) operand now and then
            elif operands and ctx.rng.random() < 0.25:
                i = ctx.rng.randrange(len(operands))
                t = operands[i]
                if t.ndim >= 1 and t.shape[0] > 1:
                    sub = t[0]
                    operands[i] = sub.expand(*t.shape)
            # ... and a SUMMED index along which every operand that mentions it is a broadcast (the multiplicity n of the sum
            # must survive: n * x in Real, log n + x in Log)
            summed = sorted({l for ix in ops_ix for l in ix if l not in out and all(ix2.count(l) <= 1 for ix2 in ops_ix)})
            if summed and not alias and ctx.rng.random() < 0.3:
                l = ctx.rng.choice(summed)
                if ty_numel(types[l]) > 1:
                    for i, ix in enumerate(ops_ix):
                        if l in ix:
                            operands[i] = bcast_along(operands[i], ix.index(l))
                    ctx.count('summed-index-broadcast-in-all-operands')
            real_side = operands
            if name == 'log':
                impl_ops = [PatternedTensor(t.physical.log(), t.paxes, t.vaxes, math.log(t.default) if t.default > 0 else -math.inf) for t in operands]
            else:
                impl_ops = operands
            rg = name in ('real', 'log') and ctx.rng.random() < 0.4 and not sumfree_bcast
            if rg:
                for t in impl_ops:
                    if t.physical.is_floating_point() and t.physical.numel():
                        t.physical.requires_grad_(True)
            from .c06 import is_dense
            nontriv = any(not is_dense(t) for t in operands) and any(l not in out for ix in ops_ix for l in ix)
            case = dict(semiring=name, operands=[ptgen.enc_pt(t) for t in real_side], inputs=ops_ix, output=out, requires_grad=rg)
            ctx.case(case, (name, tuple(case['operands']), str(ops_ix), str(out)) if nontriv else None, sample_every=150)
            ctx.count(f'{name}.ops={len(ops_ix)}' + ('.grad' if rg else ''))
            try:
                with torch.no_grad():     # as inside SumProduct.forward: requires_grad only selects the unreduced path
                    res = einsum(impl_ops, ops_ix, out, sr)
                got = res.to_dense().detach()
                if name == 'log':
                    got = got.exp()
                impl = got.reshape(-1).tolist()
                shape = list(got.shape)
            except VerifInvariantError as e:
                ctx.fail(f'einsum constructed a PatternedTensor that violates the representation invariant: {e}', case, repr(e), None, tags=['invariant'])
                continue
            except Exception as e:  # noqa
                ctx.fail(f'einsum raised {type(e).__name__}: {str(e)[:100]}', case, repr(e), None, tags=['raises', name, type(e).__name__])
                continue
            op = {'real': 'real', 'log': 'real', 'viterbi': 'viterbi', 'bool': 'bool'}[name]
            enc_ops = enc_list(list(zip(real_side, ops_ix)), lambda p: f'{ptgen.enc_pt(p[0])} {enc_list(p[1])}')
            reqs.append(f'C07.einsum {op} {enc_ops} {enc_list(out)}')
            want_shape = [ty_numel(types[l]) for l in out]
            meta.append((case, name, impl, shape, want_shape))
            # Viterbi: the returned pointers attain the maximum
            if name == 'viterbi' and ops_ix:
                check_viterbi(ctx, case, impl_ops, ops_ix, out, sr, types)
    for (case, name, impl, shape, want_shape), rep in zip(meta, ctx.driver.ask_many(reqs)):
        if isinstance(rep, Exception): raise rep
        t = Toks(rep)
        spec = t.list((lambda: t.next() == 'T') if name == 'bool' else t.ext)
        ok = shape == want_shape and len(spec) == len(impl)
        if ok:
            for a, b in zip(impl, spec):
                if name == 'bool':
                    ok = ok and bool(a) == b
                elif isinstance(b, float):
                    ok = ok and (a == b or (a != a and b != b))
                elif name == 'log':
                    ok = ok and (not math.isinf(a)) and abs(a - float(b)) <= 1e-9 * max(1.0, abs(float(b)))
                else:
                    ok = ok and a == float(b)
        if not ok:
            ctx.fail(f'{name}: einsum does not equal the semiring einsum of the dense operands', case, dict(shape=shape, value=impl),
                     dict(shape=want_shape, value=[str(x) for x in spec]), tags=['einsum-value', name])
    run_viteinsum_model(ctx)
    run_mv_mm(ctx)


def check_viterbi(ctx, case, operands, ops_ix, out, sr, types):
    try:
        val, ptr = log_viterbi_einsum_forward(operands, ops_ix, out, sr)
    except Exception as e:  # noqa
        ctx.fail(f'log_viterbi_einsum_forward raised {type(e).__name__}: {str(e)[:100]}', case, repr(e), None, tags=['raises', 'viterbi-forward', type(e).__name__])
        return
    vd, pd = val.to_dense(), ptr.to_dense()
    summed = []
    for ix in ops_ix:
        for l in ix:
            if l not in out and l not in summed:
                summed.append(l)
    ctx.evaluations += 1
    if list(pd.shape) != list(vd.shape) + [len(summed)]:
        ctx.fail('the pointer tensor does not have one entry per summed-out index', case, list(pd.shape), list(vd.shape) + [len(summed)], tags=['viterbi-ptr-shape'])
        return
    dense = [t.to_dense() for t in operands]
    for oidx in itertools.product(*[range(s) for s in vd.shape]):
        v = vd[oidx].item()
        if not math.isfinite(v):
            continue
        asst = {l: i for l, i in zip(out, oidx)}
        for j, l in enumerate(summed):
            asst[l] = int(pd[oidx + (j,)].item())
        total = 0.0
        bad = False
        for d, ix in zip(dense, ops_ix):
            idx = tuple(asst[l] for l in ix)
            if any(i < 0 or i >= s for i, s in zip(idx, d.shape)):
                bad = True; break
            total += d[idx].item()
        if bad or total != v:
            ctx.fail('the index values returned by the Viterbi einsum do not attain the maximum', dict(case, cell=list(oidx)), total if not bad else 'out of range', v,
                     tags=['viterbi-ptr'])
            return


def run_viteinsum_model(ctx, n=None):
    """the model `Ve.vitEinsum` of the patterned `log_viterbi_einsum_forward` (the unification pass and re-indexing of `Ei.einsum`,
    the physical max / first arg-max, one pointer per summed-out index variable through `Axis.stride(subst)`, the three layouts
    of the pointer tensor) predicts the REPRESENTATION of both results and is compared with them token by token up to a renaming
    of the physical axes.  When the pointers differ although the maxima agree (a tie broken differently by torch_semiring_einsum),
    the library's own pointers must satisfy the contract `Ve.ptrOk` (decided by the model): the pointed-at assignment has exactly
    the weight stored in the maximum."""
    from .unifygen import canon
    from .common import enc_ext, Toks
    reqs, meta = [], []
    sr = fggs.ViterbiSemiring(dtype=torch.float64)
    zero = sr.from_int(0).item()
    for k in range(n if n is not None else (80 if ctx.quick else 1500)):
        types, ops_ix, out = gen_job(ctx.rng)
        if not ops_ix or math.prod([ty_numel(t) for t in types.values()] + [1]) > 300:
            continue
        if k % 2:
            out = out[:len(out) // 2]        # more summed-out index variables
        # few ties (distinct-ish weights) in two runs out of three, many ties otherwise
        vals = [0.0, -1.0, -2.0, 1.0] if k % 3 == 0 else [-(i + 1) * 0.5 ** (i % 5 + 1) for i in range(23)] + [0.0, 1.0]
        operands = [random_pt(ctx.rng, [types[l] for l in ix], values=vals, defaults=[-math.inf], specials=0.0) for ix in ops_ix]
        for t in operands:
            t.default = zero
        if any(k_._numel == 0 for t in operands for k_ in t.paxes):
            continue
        ids = {}
        def enc(p_, ids_):
            pa = enc_list(p_.paxes, lambda k_: f'{ids_.setdefault(id(k_), len(ids_))} {k_._numel}')
            va = enc_list(p_.vaxes, lambda e: ptgen.enc_axis(e, ids_))
            ph = p_.physical.to(torch.float64)
            return f'{enc_list(ph.contiguous().reshape(-1).tolist() if ph.numel() else [], enc_ext)} {pa} {va} {enc_ext(float(p_.default))}'
        encs = [enc(t, ids) for t in operands]
        case = dict(semiring='viterbi', operands=encs, inputs=ops_ix, output=out, stream='viteinsum-model')
        try:
            with torch.no_grad():
                rv, rp = log_viterbi_einsum_forward(operands, ops_ix, out, sr)
        except Exception as ex:  # noqa
            ctx.fail(f'log_viterbi_einsum_forward raised {type(ex).__name__}: {str(ex)[:80]}', case, repr(ex), None,
                     tags=['raises', 'viterbi-forward', type(ex).__name__])
            continue
        job = enc_list(list(zip(encs, ops_ix)), lambda p_: f'{p_[0]} {enc_list(p_[1])}') + ' ' + enc_list(out)
        nxt = len(ids) + 5
        ids2 = dict(ids)
        def encP(r):
            pa = enc_list(r.paxes, lambda k_: f'P {ids2.setdefault(id(k_), len(ids2))} {k_._numel}')
            va = enc_list(r.vaxes, lambda e: ptgen.enc_axis(e, ids2))
            return f'{enc_list(r.physical.to(torch.float64).contiguous().reshape(-1).tolist(), enc_ext)} {pa} {va} {enc_ext(float(r.default))}'
        want = encP(rv) + ' ' + encP(rp)
        ids3 = dict(ids)
        reqs.append(f'C04.viteinsum {job} {nxt}')
        reqs.append(f'C04.ptrok {job} {nxt} {enc(rv, ids3)} {enc(rp, ids3)}')
        meta.append((case, want))
        ctx.count('viteinsum-model')
        ctx.count(f'viteinsum-model.summed-out={len({l for ix in ops_ix for l in ix} - set(out))}')
    reps = ctx.driver.ask_many(reqs)
    for i, (case, want) in enumerate(meta):
        rep, okrep = reps[2 * i], reps[2 * i + 1]
        if isinstance(rep, Exception): raise rep
        if isinstance(okrep, Exception): raise okrep
        toks = rep.split()
        flags = toks[-4:]
        body = toks[:-4]
        def pt_len(ts, i, tagged):
            """number of tokens of the patterned tensor that starts at ts[i] (physical axes written `id n`, or `P id n` when tagged)"""
            t = Toks('x'); t.t = ts; t.i = i
            t.list(t.next)
            t.list((lambda: (t.next(), t.next(), t.next())) if tagged else (lambda: (t.next(), t.next())))
            def axis():
                k = t.next()
                if k == 'P': t.next(); t.next()
                elif k == 'X': t.list(axis)
                else: t.next(); axis(); t.next()
            t.list(axis)
            t.next()
            return t.i - i
        n1 = pt_len(body, 0, False)
        pv, pp = body[:n1], body[n1:]
        def withP(ts):
            L = int(ts[0]); i = 1 + L
            P = int(ts[i]); pax = ts[i + 1:i + 1 + 2 * P]
            return ts[:i] + [str(P)] + sum((['P', pax[2 * j], pax[2 * j + 1]] for j in range(P)), []) + ts[i + 1 + 2 * P:]
        mv, mp = withP(pv), withP(pp)
        wt = want.split()
        n2 = pt_len(wt, 0, True)
        wv, wp = wt[:n2], wt[n2:]
        ctx.evaluations += 1
        unified, resolved, wf, mok = flags
        ctx.count('viteinsum-model.' + ('all-unified' if unified == 'T' else 'some-unification-failed'))
        if okrep.strip() != 'T':
            ctx.fail('the pointers returned by log_viterbi_einsum_forward do not point at an assignment of the stored weight (Ve.ptrOk)',
                     case, want, 'ptrOk = false', tags=['viterbi-ptr', 'ptrOk'])
            continue
        if mok != 'T':
            ctx.disagree('Ve.vitEinsum: the model\'s own pointers fail Ve.ptrOk (theorem C04.vitEinsum_ptrOk would be contradicted)', case, want, rep[-60:])
            continue
        def pids(ts):
            return {ts[i + 1] for i in range(len(ts) - 2) if ts[i] == 'P'}
        # zero_result() builds the two tensors independently (no shared physical axes); the model numbers each from 0
        independent = not (pids(wv) & pids(wp))
        if canon(mv + mp) == canon(wv + wp) or (independent and canon(mv) == canon(wv) and canon(mp) == canon(wp)):
            ctx.count('viteinsum-model.ptr-exact')
        elif canon(mv) != canon(wv):
            ctx.disagree('Ve.vitEinsum (model of the patterned Viterbi einsum): representation of the maximum', case, ' '.join(wv), ' '.join(mv))
        else:
            # same maxima; the pointer tensors must have the same pattern and differ in values only (a tie)
            def strip_phys(ts):
                L = int(ts[0]); return ts[1 + L:], ts[1:1 + L]
            (ms, mvals), (ws, wvals) = strip_phys(mp), strip_phys(wp)
            if (canon(mv + ['0'] + ms) != canon(wv + ['0'] + ws) and not (independent and canon(ms) == canon(ws))) or len(mvals) != len(wvals):
                ctx.disagree('Ve.vitEinsum: pattern of the pointer tensor', case, ' '.join(wp), ' '.join(mp))
            else:
                ctx.count('viteinsum-model.ptr-tie-broken-differently')
        if wf != 'T':
            ctx.disagree('Ve.vitEinsum: the model\'s result is not well formed (PT.wf)', case, want, rep[-60:])
        elif resolved != 'T':
            ctx.disagree('Ei.resolved is false for this job: the theorems C04.vitEinsum_* do not cover it', case, None, rep[-60:])


def run_mv_mm(ctx):
    sr = fggs.RealSemiring(dtype=torch.float64)
    for _ in range(20 if ctx.quick else 300):
        ti, tj, tk = [random_type(ctx.rng, depth=1, sizes=[1, 2, 3]) for _ in range(3)]
        a = random_pt(ctx.rng, [ti, tj], values=REAL_V, defaults=[0.0, 1.0], specials=0.0)
        v = random_pt(ctx.rng, [tj], values=REAL_V, defaults=[0.0, 2.0], specials=0.0)
        m = random_pt(ctx.rng, [tj, tk], values=REAL_V, defaults=[0.0, 1.0], specials=0.0)
        ctx.case(dict(mv=ptgen.enc_pt(a)), ('mv', ptgen.enc_pt(a), ptgen.enc_pt(v)), sample_every=50)
        ctx.count('mv/mm')
        for name, got, want in (('mv', lambda: a.mv(v, sr).to_dense(), lambda: a.to_dense() @ v.to_dense()),
                                ('mm', lambda: a.mm(m, sr).to_dense(), lambda: a.to_dense() @ m.to_dense())):
            try:
                g, w = got(), want()
                if g.shape != w.shape or not bool((g == w).all()):
                    ctx.fail(f'{name} differs from the dense matrix product', dict(a=ptgen.enc_pt(a)), g.tolist(), w.tolist(), tags=[name])
            except Exception as e:  # noqa
                ctx.fail(f'{name} raised {type(e).__name__}', dict(a=ptgen.enc_pt(a)), repr(e), None, tags=['raises', name])


def replay(ctx, rep):
    run(ctx)
    return bool(ctx.failures or ctx.disagreements)
