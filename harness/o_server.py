"""Line server used by C11: run under `python`, `python -O`, `python -OO`; reads one JSON request per
line ({shape, semiring, method, j_precompute, dtype, grad}), prints one JSON reply per line."""
import json, math, os, sys, warnings
sys.path.insert(0, os.environ.get('FGGS_REPO', '/repo'))
sys.path.insert(0, sys.argv[1])
import torch
import fggs
from harness import gen, semgen


def fix(shape):
    for key in ('weights', 'vweights', 'bweights'):
        if key in shape:
            shape[key] = {int(k): [float(x) for x in v] for k, v in shape[key].items()}
    shape['rules'] = [dict(r, edges=[tuple(e) for e in r['edges']]) for r in shape['rules']]
    return shape


def evaluate(req):
    shape = fix(req['shape'])
    name = req['semiring']
    dtype = getattr(torch, req['dtype'])
    sh = dict(shape, weights=shape['vweights']) if name == 'viterbi' else shape
    fgg, info = semgen.build(sh, name, dtype)
    want_grad = req.get('grad') and name in ('real', 'log')
    if want_grad:
        for el in info['TL']:
            fgg.factors[el.name].weights.physical.requires_grad_(True)
    with warnings.catch_warnings(record=True) as w:
        warnings.simplefilter('always')
        z = fggs.sum_product(fgg, method=req['method'], semiring=semgen.semiring_of(name, dtype),
                             j_precompute=req['j_precompute'], tol=req.get('tol', 1e-10), kmax=req.get('kmax', 3000))
        val = z.to_dense().reshape(-1).tolist()
        grads = None
        if want_grad:
            zd = z.to_dense()
            obj = zd[torch.isfinite(zd)].sum() if name == 'log' else zd.sum()
            if obj.requires_grad:
                obj.backward()
                grads = [fgg.factors[el.name].weights.physical.grad.reshape(-1).tolist()
                         if fgg.factors[el.name].weights.physical.grad is not None else None for el in info['TL']]
    return dict(value=val, grads=grads, warned=bool(w), debug=__debug__)


def where(e):
    """names of the fggs/sum_product.py functions on the traceback (call site of the failure)"""
    import traceback
    return sorted({f.name for f in traceback.extract_tb(e.__traceback__) if f.filename.endswith('sum_product.py')})


def main():
    for line in sys.stdin:
        line = line.strip()
        if not line:
            continue
        try:
            rep = evaluate(json.loads(line))
        except Exception as e:  # noqa
            rep = dict(error=type(e).__name__, message=str(e)[:200], debug=__debug__, where=where(e))
        print(json.dumps(rep), flush=True)


if __name__ == '__main__':
    main()
