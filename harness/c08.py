"""C08 — semiring laws.  Correspondence: every elementwise operation of the four semirings on a
value grid (specials, subnormal, huge, identities) against the Lean model `Impl.real/viterbi/bool`
and the log-side model; property oracle: the laws themselves evaluated on the implementation;
representation independence: Tensor vs PatternedTensor operands of several patterns."""
import math, itertools
from fractions import Fraction
import torch
import fggs
from fggs.indices import PatternedTensor, PhysicalAxis, SumAxis, productAxis
from .common import enc_ext, enc_list, dec_ext, Toks, same_scalar

RULE = ('grid of carrier values per semiring (0, smallest subnormal, 2^-20, 1/2, 1, 1+ulp, 2, 3, 2^20, '
        'largest finite, inf; negatives and -inf for the log carriers); every unary op on every value, '
        'every binary op on every pair, every law on every triple (quick: a seeded sample of triples); '
        'a case is non-trivial when at least one operand is not the additive or multiplicative identity')
ASSUMPTIONS = ['rounding is not modelled: single correctly-rounded operations are compared with the '
               'rounded exact model value, compositions within 8 ulp',
               'torch.logaddexp/log1p/expm1 on two finite values are outside the model (tolerance regime)']


def grids(dtype):
    fi = torch.finfo(dtype)
    tiny = float(fi.smallest_normal) * float(fi.eps)  # smallest subnormal
    ulp1 = 1.0 + float(fi.eps)
    pos = [0.0, tiny, 2.0 ** -20, 0.5, 1.0, ulp1, 2.0, 3.0, 2.0 ** 20, float(fi.max), math.inf]
    logc = sorted(set([-math.inf, -float(fi.max), -2.0 ** 20, -3.0, -1.0, -0.5, -tiny, 0.0, tiny, 0.5, 1.0, 2.0,
                       2.0 ** 20, float(fi.max), math.inf]))
    return pos, logc


def rnd(fr, dtype):
    """round an exact model value to the dtype (what a single IEEE operation returns)"""
    if isinstance(fr, float):
        return fr
    try:
        x = float(fr)   # correctly rounded to float64
    except OverflowError:
        x = math.inf if fr > 0 else -math.inf
    if dtype == torch.float32:
        x = torch.tensor(x, dtype=torch.float64).to(torch.float32).item()
    return x


def agree(impl, model, dtype, exact=True):
    m = rnd(model, dtype)
    if isinstance(m, float) and math.isnan(m):
        return math.isnan(impl)
    if impl == m:
        return True
    if exact or math.isinf(m) or math.isinf(impl) or math.isnan(impl):
        return False
    eps = float(torch.finfo(dtype).eps)
    return abs(impl - m) <= 8 * eps * max(abs(m), float(torch.finfo(dtype).tiny))


def run(ctx):
    dtypes = [torch.float64] if ctx.quick else [torch.float64, torch.float32]
    for dtype in dtypes:
        run_dtype(ctx, dtype)
    run_patterns(ctx)
    run_random_patterns(ctx)
    run_tensor_level(ctx)
    run_default_dtype(ctx)


def run_default_dtype(ctx):
    """the carrier's element type when no dtype is given is torch's default dtype AT CONSTRUCTION time (bin/sum_product.py --double
    sets it after importing fggs): from_int must then be the unique homomorphism in that precision (2^24 + 1 is not a float32)"""
    saved = torch.get_default_dtype()
    try:
        for dt in (torch.float64, torch.float32, torch.float64):
            torch.set_default_dtype(dt)
            for name, cls in (('real', fggs.RealSemiring), ('log', fggs.LogSemiring), ('viterbi', fggs.ViterbiSemiring)):
                sr = cls()
                ctx.evaluations += 1
                ctx.count('default-dtype')
                got = [sr.dtype, sr.from_int(3).dtype, sr.zeros((2,)).dtype, sr.eye(2).physical.dtype if hasattr(sr.eye(2), 'physical') else sr.eye(2).dtype]
                if any(g != dt for g in got):
                    ctx.fail(f'{cls.__name__}() built after torch.set_default_dtype({dt}) works in {got}: from_int/zeros/eye are not in the carrier\'s precision',
                             dict(semiring=name, default_dtype=str(dt)), [str(g) for g in got], str(dt), tags=['default-dtype', name])
                    continue
                if name == 'real' and dt == torch.float64:
                    a, b = sr.from_int(2 ** 24 + 1).item(), sr.from_int(2 ** 24).item()
                    if not (a == 2 ** 24 + 1 and b == 2 ** 24):
                        ctx.fail('from_int is not injective on integers representable in the carrier', dict(semiring=name, default_dtype=str(dt)), [a, b],
                                 [2 ** 24 + 1, 2 ** 24], tags=['default-dtype', 'from_int'])
    finally:
        torch.set_default_dtype(saved)


def run_dtype(ctx, dtype):
    pos, logc = grids(dtype)
    big = float(torch.finfo(dtype).max)
    T = lambda v: torch.tensor(v, dtype=dtype)
    srs = {
        'real': (fggs.RealSemiring(dtype=dtype), pos),
        'viterbi': (fggs.ViterbiSemiring(dtype=dtype), logc),
        'log': (fggs.LogSemiring(dtype=dtype), logc),
    }
    # ---- correspondence with the model: unary and binary ops
    reqs, meta = [], []
    for name, (sr, grid) in srs.items():
        # star near the multiplicative identity from below (log: 1 - e^x suffers cancellation there); not part of the law grid,
        # whose values are chosen so that sums are exact
        # (the extra points are first rounded to the dtype: -1e-300 is -0.0 in float32, and the reference must see what the
        # implementation sees — a float64 reference on the unrounded point was a false alarm of the thorough tier)
        extra = sorted({T(v).item() for v in [-1e-3, -1e-5, -1e-8, -2.0 ** -30, -1e-12, -2.0 ** -60, -1e-300]}) if name != 'real' else []
        for x in grid + [v for v in extra if v not in grid]:
            reqs.append(f'C08.op {name} star {enc_ext(big)} 1 {enc_ext(x)}')
            meta.append((name, 'star', (x,), sr.star(T(x)).item()))
        for x, y in itertools.product(grid, repeat=2):
            for op in ('add', 'mul', 'sub'):
                if name == 'log' and op == 'sub':
                    continue
                reqs.append(f'C08.op {name} {op} {enc_ext(big)} 2 {enc_ext(x)} {enc_ext(y)}')
                meta.append((name, op, (x, y), getattr(sr, op)(T(x), T(y)).item()))
        for n in (0, 1, 2, 3, 7):
            reqs.append(f'C08.fromInt {name} {n}')
            meta.append((name, 'from_int', (n,), sr.from_int(n).item()))
    bsr = fggs.BoolSemiring()
    for x, y in itertools.product([False, True], repeat=2):
        for op in ('add', 'mul', 'sub'):
            reqs.append(f'C08.op bool {op} 0 2 {enc_ext(x)} {enc_ext(y)}')
            meta.append(('bool', op, (x, y), getattr(bsr, op)(torch.tensor(x), torch.tensor(y)).item()))
    for x in (False, True):
        reqs.append(f'C08.op bool star 0 1 {enc_ext(x)}')
        meta.append(('bool', 'star', (x,), bsr.star(torch.tensor(x)).item()))
    for n in (0, 1, 2):
        reqs.append(f'C08.fromInt bool {n}')
        meta.append(('bool', 'from_int', (n,), bsr.from_int(n).item()))
    replies = ctx.driver.ask_many(reqs)
    for req, (name, op, args, impl), rep in zip(reqs, meta, replies):
        if isinstance(rep, Exception):
            raise rep
        ident = {'real': (0.0, 1.0), 'viterbi': (-math.inf, 0.0), 'log': (-math.inf, 0.0), 'bool': (False, True)}[name]
        nontriv = any(a not in ident for a in args)
        ctx.case(f'{name}.{op}{args} [{dtype}] -> {impl!r}', (name, op, args, str(dtype)) if nontriv else None,
                 sample_every=97)
        ctx.count(f'{name}.{op}')
        if name == 'bool':
            model = (rep == 'T')
            if bool(impl) != model:
                ctx.disagree(f'Impl.bool.{op}', dict(op=op, args=args), impl, model)
            continue
        if rep.startswith('none'):   # transcendental: tolerance regime against libm in float64
            ctx.count('transcendental')
            ref = log_ref(op, args)
            if ref is not None and not (abs(impl - ref) <= 1e-5 * max(1.0, abs(ref)) if math.isfinite(ref) else impl == ref):
                ctx.fail(f'LogSemiring.{op} differs from its definition', dict(op=op, args=args, dtype=str(dtype)), impl, ref)
            continue
        model = dec_ext(rep[5:] if rep.startswith('some ') else rep)
        exact = not (name == 'real' and op == 'star')
        if not agree(impl, model, dtype, exact=exact):
            ctx.disagree(f'Impl.{name}.{op}', dict(semiring=name, op=op, args=[repr(a) for a in args], dtype=str(dtype)),
                         impl, str(model),
                         python=f'import torch,fggs; print(fggs.{type(srs[name][0]).__name__}(dtype={dtype}).{op}(*[torch.tensor(a,dtype={dtype}) for a in {list(args)!r}]))')
    # ---- property oracle: the laws on the implementation
    for name, (sr, grid) in list(srs.items()) + [('bool', (bsr, [False, True]))]:
        check_laws(ctx, name, sr, grid, dtype)


def log_ref(op, args):
    try:
        if op == 'add':
            x, y = args
            m = max(x, y)
            return m + math.log(math.exp(x - m) + math.exp(y - m))
        if op == 'star':
            (x,) = args
            if x >= 0:
                return math.inf
            # star(x) = -log(1 - e^x): the accurate form near 0 is -log(-expm1(x)), away from 0 it is -log1p(-e^x)
            return -math.log(-math.expm1(x)) if x > -1 else -math.log1p(-math.exp(x))
        if op == 'from_int':
            return math.log(args[0])
    except (OverflowError, ValueError):
        return None
    return None


def check_laws(ctx, name, sr, grid, dtype):
    isb = name == 'bool'
    T = (lambda v: torch.tensor(v)) if isb else (lambda v: torch.tensor(v, dtype=dtype))
    zero, one = sr.from_int(0), sr.from_int(1)
    exact_arith = name in ('viterbi', 'bool')
    eps = 0 if isb else float(torch.finfo(dtype).eps)

    def eq(a, b, exact, scale=0.0):
        a, b = a.item(), b.item()
        if a == b or (a != a and b != b):
            return True
        if exact or isb or math.isinf(a) or math.isinf(b) or a != a or b != b:
            return False
        return abs(a - b) <= 16 * eps * max(abs(a), abs(b), scale if name == 'log' else 0.0)

    def law(lname, lhs, rhs, args, exact):
        ctx.count(f'law.{name}.{lname}')
        ctx.evaluations += 1
        scale = max([1.0] + [abs(float(a)) for a in args if isinstance(a, float) and math.isfinite(a)])
        if not eq(lhs, rhs, exact, scale):
            tags = []
            ctx.fail(f'{name}: {lname} fails', dict(semiring=name, law=lname, args=[repr(a) for a in args], dtype=str(dtype)),
                     lhs.item(), rhs.item(), tags=tags,
                     python=f'# semiring {name}, law {lname}, operands {args!r}')

    for x in grid:
        tx = T(x)
        law('zero_add', sr.add(zero, tx), tx, (x,), True)
        law('one_mul', sr.mul(one, tx), tx, (x,), True)
        law('zero_mul', sr.mul(zero, tx), zero, (x,), True)
        law('mul_zero', sr.mul(tx, zero), zero, (x,), True)
        # star x = 1 + x * star x
        sx = sr.star(tx)
        law('star_solves', sx, sr.add(one, sr.mul(tx, sx)), (x,), exact_arith)
    # star of the multiplicative identity: one in the idempotent semirings, infinite otherwise
    s1 = sr.star(one).item()
    want = {'real': math.inf, 'log': math.inf, 'viterbi': 0.0, 'bool': True}[name]
    ctx.evaluations += 1
    if s1 != want:
        ctx.fail(f'{name}: star(one) = {s1}, least solution of y = 1 + y is {want}', dict(semiring=name, law='star_one'),
                 s1, want, tags=['star-one', name])
    # star is the least solution: any grid y with y = 1 + x*y must be >= star x
    if not isb:
        for x, y in itertools.product(grid, repeat=2):
            tx, ty = T(x), T(y)
            if math.isfinite(y) and abs(y) > 2.0 ** 21:
                continue   # y = 1 + x*y holds there by absorption (rounding), not in exact arithmetic
            if name != 'real' and math.isfinite(x) and math.isfinite(y) and (0 < abs(x) < 2.0 ** -40 or (name == 'log' and y > 30)):
                continue   # max(0, x + y) = y resp. logaddexp(0, x + y) = y by absorption only
            if eq(ty, sr.add(one, sr.mul(tx, ty)), True):
                ctx.evaluations += 1
                ctx.count(f'law.{name}.star_least')
                sx = sr.star(tx).item()
                if not (sx <= y * (1 + 16 * eps) + 16 * eps if math.isfinite(y) and math.isfinite(sx) else sx <= y):
                    ctx.fail(f'{name}: star({x}) = {sx} is not the least solution of y = 1 + x*y ({y} is smaller)',
                             dict(semiring=name, law='star_least', x=repr(x), y=repr(y)), sx, y,
                             tags=['star-least', name, f'x={x!r}'])
    # sum over a dimension with 0, 1, 3 elements is the fold of add from the additive identity (the sum over NOTHING is zero)
    for n in (0, 0, 1, 3, 3):
        vals = [ctx.rng.choice(grid) for _ in range(n)]
        st = torch.stack([T(v) for v in vals]).reshape(1, n) if n else torch.zeros((1, 0), dtype=zero.dtype)
        dim = ctx.rng.choice([1, -1])
        try:
            got = sr.sum(st, dim=dim)[0]
        except Exception as ex:  # noqa
            ctx.evaluations += 1
            ctx.fail(f'{name}: sum over a dimension with {n} elements raised {type(ex).__name__}: {str(ex)[:80]}',
                     dict(semiring=name, law='sum_fold', values=[repr(v) for v in vals], dim=dim, dtype=str(st.dtype)), repr(ex), None,
                     tags=['sum-raises', name, f'n={n}'])
            continue
        want = zero.clone()
        for v in vals:
            want = sr.add(want, T(v))
        law('sum_fold', got, want, tuple(vals), name != 'log')
    pairs = list(itertools.product(grid, repeat=2))
    for x, y in pairs:
        tx, ty = T(x), T(y)
        law('add_comm', sr.add(tx, ty), sr.add(ty, tx), (x, y), True)
        law('mul_comm', sr.mul(tx, ty), sr.mul(ty, tx), (x, y), True)
        if y <= x:
            law('sub_add', sr.add(sr.sub(tx, ty), ty), tx, (x, y), exact_arith)
        # add_ and sum agree with add
        if not isb or True:
            acc = tx.clone()
            sr.add_(acc, ty)
            law('add_', acc, sr.add(tx, ty), (x, y), True)
            st = torch.stack([tx, ty]).unsqueeze(0)
            law('sum', sr.sum(st, dim=1)[0], sr.add(tx, ty), (x, y), name != 'log')
    triples = list(itertools.product(grid, repeat=3))
    if ctx.quick and len(triples) > 600:
        triples = ctx.rng.sample(triples, 600)
    for x, y, z in triples:
        tx, ty, tz = T(x), T(y), T(z)
        law('add_assoc', sr.add(sr.add(tx, ty), tz), sr.add(tx, sr.add(ty, tz)), (x, y, z), exact_arith)
        if overflowing(name, x, y, z, dtype):
            ctx.count(f'law.{name}.skipped_out_of_range')
            continue
        law('mul_assoc', sr.mul(sr.mul(tx, ty), tz), sr.mul(tx, sr.mul(ty, tz)), (x, y, z), exact_arith)
        law('distrib', sr.mul(tx, sr.add(ty, tz)), sr.add(sr.mul(tx, ty), sr.mul(tx, tz)), (x, y, z), exact_arith)
    # from_int is the homomorphism from the naturals
    acc = sr.from_int(0)
    for n in range(0, 6):
        law('from_int_hom', sr.from_int(n), acc, (n,), name != 'log')
        acc = sr.add(acc, one)


def overflowing(name, x, y, z, dtype):
    """a finite intermediate of the law leaves the dtype's normal range (overflow to inf,
    underflow to 0/subnormal): IEEE arithmetic then differs from exact arithmetic by design"""
    if name == 'bool':
        return False
    fi = torch.finfo(dtype)
    vals = [Fraction(v) for v in (x, y, z) if math.isfinite(v)]
    inter = []
    if name == 'real':
        for a, b in itertools.combinations(vals, 2):
            inter += [a * b, a + b]
        if len(vals) == 3:
            inter += [vals[0] * vals[1] * vals[2], vals[0] * (vals[1] + vals[2])]
    else:
        for a, b in itertools.combinations(vals, 2):
            inter += [a + b]
        if len(vals) == 3:
            inter += [vals[0] + vals[1] + vals[2]]
    for v in inter:
        if v != 0 and not (Fraction(float(fi.smallest_normal)) <= abs(v) <= Fraction(float(fi.max))):
            return True
        if name != 'real' and v != 0 and abs(v) > 2 ** 40 and min(abs(u) for u in vals if u != 0) < 1:
            return True   # absorption of a small addend by a huge one
    return False


def patterns(vals, default, dtype):
    """several PatternedTensors denoting vectors/matrices built from `vals`"""
    n = len(vals)
    v = torch.tensor(vals) if dtype == torch.bool else torch.tensor(vals, dtype=dtype)
    out = []
    out.append(('dense', lambda: PatternedTensor(v.clone(), default=default)))
    def diag():
        k = PhysicalAxis(n)
        return PatternedTensor(v.clone(), (k,), (k, k), default)
    out.append(('diag', diag))
    def shifted():
        k = PhysicalAxis(n)
        return PatternedTensor(v.clone(), (k,), (SumAxis(1, k, 0),), default)
    out.append(('shift', shifted))
    def prod():
        k = PhysicalAxis(n)
        l = PhysicalAxis(2)
        w = torch.stack([v, v.flip(0)])
        return PatternedTensor(w, (l, k), (productAxis((l, k)), k), default)
    out.append(('prod', prod))
    return out


def run_patterns(ctx):
    """add, mul, sub give the same result on Tensors and on PatternedTensors of any pattern"""
    dtype = torch.float64
    cfgs = [
        ('real', fggs.RealSemiring(dtype=dtype), [0.0, 0.5, 1.0, 3.0, math.inf], [0.0, 1.0, math.inf, 2.0]),
        ('log', fggs.LogSemiring(dtype=dtype), [-math.inf, -1.0, 0.0, 2.0, math.inf], [-math.inf, 0.0, math.inf, -2.0]),
        ('viterbi', fggs.ViterbiSemiring(dtype=dtype), [-math.inf, -1.0, 0.0, 2.0, math.inf], [-math.inf, 0.0, math.inf, -2.0]),
        ('bool', fggs.BoolSemiring(), [False, True, True, False, True], [False, True]),
    ]
    for name, sr, vals, defaults in cfgs:
        dt = torch.bool if name == 'bool' else dtype
        perms = [vals, list(reversed(vals)), vals[2:] + vals[:2]]
        for dx, dy in itertools.product(defaults, repeat=2):
            for vx, vy in itertools.product(perms, repeat=2):
                px, py = patterns(vx, dx, dt), patterns(vy, dy, dt)
                for (nx, mkx), (ny, mky) in itertools.product(px, py):
                    for op in ('add', 'mul', 'sub'):
                        x, y = mkx(), mky()
                        if x.shape != y.shape:
                            continue
                        want = getattr(sr, op)(x.to_dense(), y.to_dense())
                        try:
                            got = getattr(sr, op)(x, y).to_dense()
                        except Exception as e:  # noqa
                            got = e
                        ctx.case(f'{name}.{op} {nx}(default {dx}) {ny}(default {dy})',
                                 (name, op, nx, ny, dx, dy, tuple(vx), tuple(vy)), sample_every=211)
                        ctx.count(f'pattern.{name}.{op}')
                        ok = isinstance(got, torch.Tensor) and got.shape == want.shape and \
                            bool(((got == want) | ((got != got) & (want != want))).all())
                        if not ok:
                            tags = ['patterned', name, op]
                            if isinstance(got, torch.Tensor) and bool(((got < -1e300) & (want == -math.inf)).any()):
                                tags.append('neginf-becomes-finite')
                            ctx.fail(f'{name}.{op} on PatternedTensors ({nx},{ny}) differs from the Tensor result',
                                     dict(semiring=name, op=op, x=dict(pattern=nx, vals=[repr(a) for a in vx], default=repr(dx)),
                                          y=dict(pattern=ny, vals=[repr(a) for a in vy], default=repr(dy))),
                                     repr(got), repr(want), tags=tags)


def run_random_patterns(ctx):
    """operands of the same shape — or of shapes that BROADCAST (size-1 and missing leading dimensions, scalars) — but DIFFERENT
    sparsity patterns (typed generator of C06/C07): the semiring
    operation on PatternedTensors is the elementwise operation on what they denote, whatever their defaults"""
    from . import ptgen
    dtype = torch.float64
    cfgs = [
        ('real', fggs.RealSemiring(dtype=dtype), [0.0, 0.5, 1.0, 3.0, 2.0, 0.25], [0.0, 0.0, 1.0, math.inf, 2.0]),
        ('log', fggs.LogSemiring(dtype=dtype), [-math.inf, -1.0, 0.0, 2.0, -3.0, -0.5], [-math.inf, -math.inf, 0.0, 0.0, math.inf, -2.0]),
        ('viterbi', fggs.ViterbiSemiring(dtype=dtype), [-math.inf, -1.0, 0.0, 2.0, -3.0, -0.5], [-math.inf, -math.inf, 0.0, 0.0, math.inf, -2.0]),
        ('bool', fggs.BoolSemiring(), None, None),
    ]
    n = 150 if ctx.quick else 2500
    for name, sr, vals, defaults in cfgs:
        for it in range(n):
            types = [ptgen.random_type(ctx.rng, depth=2) for _ in range(ctx.rng.randint(1, 3))]
            kw = dict(bool_=True) if name == 'bool' else dict(values=vals, defaults=defaults, specials=0.1)
            xtypes = ytypes = types
            if it % 3 == 1:
                # BROADCAST: one operand has size 1 in some dimensions, or lacks leading dimensions (down to a scalar), where the other
                # has a pattern — in particular a diagonal (the same physical axis in two dimensions)
                if len(types) >= 2 and ctx.rng.random() < 0.6:
                    i, j = ctx.rng.sample(range(len(types)), 2)
                    types[j] = types[i]
                bt = [('atom', 1) if ctx.rng.random() < 0.6 else ty for ty in types]
                bt = bt[ctx.rng.randint(0, len(bt)):] if ctx.rng.random() < 0.5 else bt
                xtypes, ytypes = (bt, types) if ctx.rng.random() < 0.5 else (types, bt)
                kw = dict(kw, p_share=0.6)
                ctx.count(f'rpattern.{name}.broadcast')
            x = ptgen.random_pt(ctx.rng, xtypes, p_dense=0.2, max_phys=200, **kw)
            y = ptgen.random_pt(ctx.rng, ytypes, p_dense=0.2, max_phys=200, **kw)
            if x.numel() > 4000:
                continue
            for op in ('add', 'mul', 'sub'):
                xd, yd = x.to_dense(), y.to_dense()
                want = getattr(sr, op)(xd.clone(), yd.clone())
                try:
                    got = getattr(sr, op)(x, y).to_dense()
                except Exception as e:  # noqa
                    got = e
                desc = dict(semiring=name, op=op, x=ptgen.enc_pt(x), y=ptgen.enc_pt(y))
                differ = repr(x.vaxes) != repr(y.vaxes)
                ctx.case(f'{name}.{op} random patterns', (name, op, desc['x'], desc['y']) if differ else None, sample_every=503)
                ctx.count(f'rpattern.{name}.{op}')
                ok = isinstance(got, torch.Tensor) and got.shape == want.shape and \
                    bool(((got == want) | ((got != got) & (want != want))).all())
                if not ok:
                    tags = ['patterned', name, op]
                    if isinstance(got, torch.Tensor) and got.shape == want.shape and bool(((got < -1e300) & (want == -math.inf)).any()):
                        tags.append('neginf-becomes-finite')
                    ctx.fail(f'{name}.{op} on PatternedTensors of different patterns differs from the Tensor result', desc,
                             repr(got), repr(want), tags=tags)
                # the operands are not modified (C18 overlaps)
                if not (ptgen.same_dense(x.to_dense(), xd) and ptgen.same_dense(y.to_dense(), yd)):
                    ctx.fail(f'{name}.{op} on PatternedTensors modified an operand', desc, None, None, tags=['patterned', 'mutates'])


def run_tensor_level(ctx):
    """elementwise ops on 1-d tensors agree with the 0-d results (same kernels, vectorised)"""
    dtype = torch.float64
    pos, logc = grids(dtype)
    for name, sr, grid in (('real', fggs.RealSemiring(dtype=dtype), pos), ('viterbi', fggs.ViterbiSemiring(dtype=dtype), logc),
                           ('log', fggs.LogSemiring(dtype=dtype), logc)):
        xs = torch.tensor([x for x in grid for _ in grid], dtype=dtype)
        ys = torch.tensor([y for _ in grid for y in grid], dtype=dtype)
        for op in ('add', 'mul', 'sub'):
            vec = getattr(sr, op)(xs, ys)
            sc = torch.stack([getattr(sr, op)(x, y) for x, y in zip(xs, ys)])
            ctx.evaluations += 1
            if not bool(((vec == sc) | ((vec != vec) & (sc != sc))).all()):
                ctx.fail(f'{name}.{op}: 1-d result differs from 0-d results', dict(semiring=name, op=op), None, None)
        st = sr.star(torch.tensor(grid, dtype=dtype))
        sc = torch.stack([sr.star(torch.tensor(x, dtype=dtype)) for x in grid])
        ctx.evaluations += 1
        if not bool(((st == sc) | ((st != st) & (sc != sc))).all()):
            ctx.fail(f'{name}.star: 1-d result differs from 0-d results', dict(semiring=name), None, None)


def replay(ctx, rep):
    run(ctx)
    return bool(ctx.failures or ctx.disagreements)
