"""C18 — queries are pure, results reproducible; in-place operations on a clone never change the source.
(a) runtime monitor: random interleaved sequences of public queries (sum_product(s), viterbi, factorize_*,
conjoin_hrgs, JSON writers) on the same objects; every argument is deep-snapshotted (grammar structure via
public accessors; for every tensor: storage bytes, size, stride, offset, default, requires_grad, grad is None,
_version) before and after every call, and every query is repeated and its result compared bitwise.
(b) clone isolation: random sequences of in-place operations on a clone of a PatternedTensor / MultiTensor,
mirrored on the Lean heap model `Hp.run` (values compared exactly), with the source compared bit for bit."""
import copy, json, math, warnings
import torch
import fggs
from fggs.indices import PatternedTensor
from fggs.multi import MultiTensor
from fggs import formats
from fggs.conjunction import conjoin_hrgs
from fggs.factorize import factorize_rule, factorize_hrg, factorize_fgg
from . import gen, semgen, ptgen
from .c02 import sccs_and_linearity
from .common import enc_ext, enc_list, Toks

RULE = ('query sequences of length 3..6 over {sum_product x semiring x method, sum_products, viterbi, factorize_fgg/hrg/rule x method, '
        'conjoin_hrgs(g, g.copy()), hrg_to_json, fgg_to_json} on one grammar object (non-recursive and recursive shapes, weights requiring grad '
        'or not, dense and patterned weights); in-place op sequences of length 1..6 on clones of typed random patterns and of MultiTensors; '
        'non-trivial = sequence with >= 3 distinct queries / pattern that is not dense')
ASSUMPTIONS = ['whole-query purity is runtime-monitored, not proved; the Lean theorem covers the clone/in-place heap discipline',
               'torch._version and storage bytes are taken as the ground truth for "unchanged"']


def snap_tensor(t):
    p = t.physical
    st = p.untyped_storage()
    return (bytes(st) if st.nbytes() else b'', tuple(p.shape), tuple(p.stride()), p.storage_offset(), repr(t.default), p.requires_grad,
            p.grad is None, p._version, tuple(id(k) for k in t.paxes), len(t.vaxes))


def snap_graph(g):
    return (tuple((n.label.name, repr(n.id)) for n in g.nodes()), tuple((e.label.name, tuple(repr(v.id) for v in e.nodes), repr(e.id)) for e in g.edges()),
            tuple(repr(n.id) for n in g.ext), tuple(l.name for l in g.node_labels()), tuple((l.name, l.is_terminal, tuple(x.name for x in l.type)) for l in g.edge_labels()))


def snap_fgg(g):
    s = (None if g.start is None else g.start.name, tuple(l.name for l in g.node_labels()),
         tuple((l.name, l.is_terminal, tuple(x.name for x in l.type)) for l in g.edge_labels()),
         tuple((r.lhs.name, snap_graph(r.rhs)) for r in g.all_rules()))
    if hasattr(g, 'domains'):
        s += (tuple((k, json.dumps(d.to_json())) for k, d in g.domains.items()),
              tuple((k, snap_tensor(f.weights)) for k, f in g.factors.items()))
    return s


def snap_semiring(sr):
    """the observable state of a semiring object (an ARGUMENT of the queries, reused by callers): its attributes, tensors by value"""
    out = []
    for k_, v_ in sorted(vars(sr).items()):
        if isinstance(v_, torch.Tensor):
            out.append((k_, 'tensor', str(v_.dtype), tuple(v_.shape), v_.detach().reshape(-1).tolist()))
        else:
            out.append((k_, repr(v_)))
    z, o = sr.from_int(0), sr.from_int(1)
    out.append(('from_int', z.reshape(-1).tolist(), o.reshape(-1).tolist()))
    return out


def queries(rng, fgg, shape, linear, SR=None):
    Q = []
    SR = SR if SR is not None else {name: semgen.semiring_of(name, torch.float64) for name in ('real', 'log', 'viterbi', 'bool')}
    for name in ('real', 'log', 'viterbi', 'bool'):
        for method in ['fixed-point', 'newton'] + (['linear'] if linear else []):
            Q.append((f'sum_product[{name},{method}]', name, lambda g, name=name, method=method:
                      fggs.sum_product(g, method=method, semiring=SR[name]).to_dense().tolist()))
    Q.append(('sum_products', 'real', lambda g: {k.name: v.to_dense().tolist() for k, v in fggs.sum_products(g, semiring=SR['real']).items()}))
    # a gradient asked for with a seed tensor the CALLER owns (grad_outputs): the seed is an argument and must not be written to
    def grad_seed(g, name):
        ws = [f.weights.physical for f in g.factors.values() if f.weights.physical.requires_grad]
        if not ws:
            return 'no-leaves'
        z = fggs.sum_product(g, method='fixed-point', semiring=SR[name])
        if not z.physical.requires_grad:
            return 'constant'
        seed = torch.full(tuple(z.physical.shape), 1.5, dtype=z.physical.dtype).contiguous()
        before = seed.clone()
        gr = torch.autograd.grad(z.physical, ws, grad_outputs=seed, allow_unused=True)
        if not torch.equal(seed, before) and not (torch.isnan(seed) & torch.isnan(before)).all():
            return ('seed-mutated', before.reshape(-1).tolist(), seed.reshape(-1).tolist())
        return [None if x is None else x.reshape(-1).tolist() for x in gr]
    Q.append(('grad_with_seed[real]', 'real', lambda g: grad_seed(g, 'real')))
    Q.append(('grad_with_seed[log]', 'log', lambda g: grad_seed(g, 'log')))
    def vit(g):
        try:
            d = fggs.viterbi(g, tuple([0] * g.start.arity), semiring=fggs.ViterbiSemiring(dtype=torch.float64))
            return repr(sorted(d.asst.values()))
        except RecursionError:
            return 'RecursionError'
    Q.append(('viterbi', 'viterbi', vit))
    def rules_summary(rules):
        # names included: a second call must introduce the same fresh names
        return [(r.lhs.name, len(list(r.rhs.nodes())), sorted(e.label.name for e in r.rhs.edges())) for r in rules]
    for m in ('min_fill', 'quickbb', 'acb'):
        Q.append((f'factorize_fgg[{m}]', None, lambda g, m=m: rules_summary(factorize_fgg(g, method=m).all_rules())))
        Q.append((f'factorize_hrg[{m}]', None, lambda g, m=m: rules_summary(factorize_hrg(g, method=m).all_rules())))
        Q.append((f'factorize_rule[{m}]', None, lambda g, m=m: [rules_summary(factorize_rule(r, method=m)) for r in g.all_rules()]))
    Q.append(('factorize_rule', None, lambda g: [rules_summary(factorize_rule(r)) for r in g.all_rules()]))
    Q.append(('conjoin_hrgs', None, lambda g: len(conjoin_hrgs(g, g.copy()).all_rules())))
    Q.append(('hrg_to_json', None, lambda g: json.dumps(formats.hrg_to_json(g), sort_keys=True)))
    Q.append(('fgg_to_json', None, lambda g: json.dumps(formats.fgg_to_json(g), sort_keys=True)))
    return Q


def run(ctx):
    run_queries(ctx)
    run_clones(ctx)


def run_queries(ctx):
    n = 60 if ctx.quick else 400
    for k in range(n):
        recursive = ctx.rng.random() < 0.3
        if k in (1, 2):
            # corpus: a recursive component of arity-0 nonterminals whose first contribution is structurally zero (a rule that sums over an
            # EMPTY domain: a 0-dim zero result) and whose value changes afterwards; the same semiring object serves all the queries
            recursive = True
            shape = dict(nls=[0], terms=[[0], [], []], nts=[[], []], start=0,
                         rules=[dict(lhs=0, nodes=[0], ext=[], edges=[['t', 0, [0]]]), dict(lhs=0, nodes=[], ext=[], edges=[['n', 1, []]]),
                                dict(lhs=1, nodes=[], ext=[], edges=[['t', 1, []]]), dict(lhs=1, nodes=[], ext=[], edges=[['t', 2, []], ['n', 0, []]])],
                         weights={0: [], 1: [2.0 if k == 1 else 1.0], 2: [0.25]})
            shape['vweights'] = {0: [], 1: [-1.0], 2: [-2.0]}
            shape['bweights'] = {0: [], 1: [1.0], 2: [1.0]}
            shape['_corpus_queries'] = ['sum_product[real,fixed-point]', 'sum_product[real,newton]', 'sum_product[real,fixed-point]',
                                        'sum_product[log,fixed-point]', 'sum_product[log,fixed-point]', 'sum_products', 'sum_product[viterbi,fixed-point]']
        elif recursive:
            from .c02 import gen_shape as g2
            shape = g2(ctx.rng)
        else:
            from .c01 import gen_shape as g1
            shape = g1(ctx.rng, dom_sizes=(1, 2, 3, 2))
            shape['weights'] = {i: [x if x != math.inf else 2.0 for x in w] for i, w in shape['weights'].items()}
        rec, lin = sccs_and_linearity(shape)
        # one grammar object per weight representation (the semiring decides how weights are read)
        grammars = {}
        for name in ('real', 'log', 'viterbi', 'bool'):
            sh = dict(shape, weights=shape['vweights']) if name == 'viterbi' and 'vweights' in shape else shape
            if name == 'viterbi' and rec:
                sh = dict(sh, weights={i: [min(x, 0.0) for x in w] for i, w in sh['weights'].items()})
            g, info = semgen.build(sh, name, torch.float64, ids=ctx.rng.choice(['implicit', 'explicit']))
            if name in ('viterbi', 'log') and ctx.rng.random() < 0.4:
                # log-weights held as PatternedTensors whose default already is the semiring zero (as produced by .log()), with
                # infinite entries: a query must not normalise them in place
                for el in info['TL']:
                    w = g.factors[el.name].weights.to_dense().clone()
                    if w.numel() and ctx.rng.random() < 0.5:
                        w.view(-1)[ctx.rng.randrange(w.numel())] = math.inf
                    g.factors[el.name].weights = PatternedTensor(w, default=-math.inf)
            if name in ('real', 'log', 'viterbi') and ctx.rng.random() < 0.5:
                # leaves of the caller's autograd graph (for the Viterbi grammar too: viterbi() reads them, it must not detach them in place)
                for el in info['TL']:
                    g.factors[el.name].weights.physical.requires_grad_(True)
            grammars[name] = g
        SR = {name: semgen.semiring_of(name, torch.float64) for name in ('real', 'log', 'viterbi', 'bool')}   # reused by every query of the sequence
        Q = queries(ctx.rng, None, shape, lin, SR)
        seq = [ctx.rng.choice(Q) for _ in range(ctx.rng.randint(3, 6))]
        if shape.get('_corpus_queries'):
            seq = [q for nm in shape['_corpus_queries'] for q in Q if q[0] == nm]
        case = dict(shape=shape, queries=[q[0] for q in seq])
        ctx.case(case, (repr(shape), tuple(q[0] for q in seq)) if len({q[0] for q in seq}) >= 3 else None, sample_every=10)
        first = {}
        for qname, sem, f in seq:
            g = grammars[sem or 'real']
            before = snap_fgg(g)
            sr_before = {nm: snap_semiring(x) for nm, x in SR.items()}
            earlier = g.copy()
            ctx.count(qname.split('[')[0])
            with warnings.catch_warnings():
                warnings.simplefilter('ignore')
                try:
                    with torch.no_grad() if False else torch.enable_grad():
                        res = f(g)
                except Exception as e:  # noqa
                    res = ('raise', type(e).__name__)
            after = snap_fgg(g)
            ctx.evaluations += 1
            for nm, x in SR.items():
                if repr(snap_semiring(x)) != repr(sr_before[nm]):
                    ctx.fail(f'{qname} changed the state of the {nm} semiring object it was given (a later query with the same semiring sees other values)',
                             case, snap_semiring(x), sr_before[nm], tags=['mutation', 'semiring-object', qname.split('[')[0]])
            if isinstance(res, tuple) and res and res[0] == 'seed-mutated':
                ctx.fail(f'{qname}: the gradient seed tensor passed as grad_outputs was written to', case, res[2], res[1], tags=['mutation', 'grad-seed'])
            if after == before and not (g == earlier):
                ctx.fail(f'{qname} mutated its argument (the grammar no longer equals the copy taken before the call)', case, None, None,
                         tags=['mutation', 'eq-copy', qname.split('[')[0]])
            if after != before:
                what = diff_snap(before, after)
                ctx.fail(f'{qname} mutated its argument ({what})', case, what, None, tags=['mutation', qname.split('[')[0]])
            key = (qname, sem)
            r = json.dumps(res, sort_keys=True, default=repr)
            if key in first and first[key] != r:
                ctx.fail(f'{qname} gave a different result when called again on the same input', case, r[:300], first[key][:300], tags=['irreproducible', qname.split('[')[0]])
            first.setdefault(key, r)


def diff_snap(a, b):
    names = ['start', 'node labels', 'edge labels', 'rules', 'domains', 'factor weights']
    for n, x, y in zip(names, a, b):
        if x != y:
            if n == 'factor weights':
                for (k1, s1), (k2, s2) in zip(x, y):
                    if s1 != s2:
                        fields = ['storage bytes', 'shape', 'stride', 'offset', 'default', 'requires_grad', 'grad is None', '_version', 'paxes', 'ndim']
                        return f'weights of {k1}: ' + ', '.join(f for f, u, v in zip(fields, s1, s2) if u != v)
            return n
    return 'unknown'


# ------------------------------------------------------------------ (b) clones

INPLACE = ['neg_', 'abs_', 'relu_', 'log_', 'log1p_', 'nan_to_num_', 'imul2', 'idiv2', 'copy_same', 'copy_other']


def apply_inplace(t, op, other):
    if op == 'neg_': t.neg_()
    elif op == 'abs_': t.abs_()
    elif op == 'relu_': t.relu_()
    elif op == 'log_': t.log_()
    elif op == 'log1p_': t.log1p_()
    elif op == 'nan_to_num_': t.nan_to_num_(nan=0., posinf=math.inf, neginf=-math.inf)
    elif op == 'imul2': t *= 2.0
    elif op == 'idiv2': t /= 2.0
    elif op == 'copy_same': t.copy_(other)
    elif op == 'copy_other': t.copy_(PatternedTensor(other.to_dense() + 1.0))
    return t


def run_copy_noncontiguous(ctx, count):
    # copy_ into destinations whose physical storage is NOT contiguous (expanded scalars of eye/full, slices yielded by
    # iteration, transposed storage): afterwards destination and source must not share storage either way
    sr_real = fggs.RealSemiring(dtype=torch.float64)
    for k in range(count):
        n = ctx.rng.choice([2, 3])
        kind = ctx.rng.choice(['eye', 'full', 'iter-slice', 'transposed', 'numel-grows', 'numel-shrinks'])
        if kind == 'eye':
            x = PatternedTensor.eye(n, sr_real)
            d = PatternedTensor(torch.arange(1., n + 1, dtype=torch.float64), x.paxes, x.vaxes, 0.) if False else None
            from fggs.indices import PhysicalAxis
            kk = PhysicalAxis(n)
            d = PatternedTensor(torch.arange(1., n + 1, dtype=torch.float64), (kk,), (kk, kk), 0.)
        elif kind == 'full':
            x = PatternedTensor.full((n, n), 2.0, dtype=torch.float64)
            d = PatternedTensor(torch.arange(1., n * n + 1, dtype=torch.float64).reshape(n, n))
        elif kind in ('numel-grows', 'numel-shrinks'):
            # destination and source of different physical sizes (a sparsity pattern that changes between two iterates of fixed_point):
            # the destination's storage cannot be reused, and it must not end up SHARING the source's
            from fggs.indices import PhysicalAxis
            kk = PhysicalAxis(n)
            diag = PatternedTensor(torch.arange(1., n + 1, dtype=torch.float64), (kk,), (kk, kk), 0.)
            dense = PatternedTensor(torch.arange(30., 30. + n * n, dtype=torch.float64).reshape(n, n))
            x, d = (diag, dense) if kind == 'numel-grows' else (dense, diag)
        elif kind == 'iter-slice':
            base = PatternedTensor(torch.arange(1., n * n * 2 + 1, dtype=torch.float64).reshape(n, 2, n)).permute((1, 0, 2)) if False else \
                PatternedTensor(torch.arange(1., n * n + 1, dtype=torch.float64).reshape(n, n)).t()
            x = list(base)[0]
            d = PatternedTensor(torch.arange(10., 10. + n, dtype=torch.float64))
        else:
            x = PatternedTensor(torch.arange(1., n * n + 1, dtype=torch.float64).reshape(n, n).t())
            d = PatternedTensor(torch.arange(20., 20. + n * n, dtype=torch.float64).reshape(n, n))
        op = ctx.rng.choice(['neg_', 'imul2', 'log_', 'abs_'])
        side = ctx.rng.choice(['dest', 'src'])
        case = dict(copy_into=kind, then=op, on=side)
        ctx.case(case, ('copy_-noncontiguous', kind, op, side), sample_every=20)
        ctx.count('copy_-into.' + kind)
        try:
            x.copy_(d)
            after_copy = x.to_dense().clone()
            d_dense = d.to_dense().clone()
            if not ptgen.same_dense(after_copy, d_dense):
                ctx.fail(f'copy_ into a {kind} destination does not make it equal to the source', case, after_copy.tolist(), d_dense.tolist(), tags=['copy_', kind])
            target, other_side, other_before = (x, d, d_dense) if side == 'dest' else (d, x, after_copy)
            apply_inplace(target, op, d)
            if not ptgen.same_dense(other_side.to_dense(), other_before):
                ctx.fail(f'after x.copy_(d) with a {kind} destination, an in-place {op} on the {side} changed the other tensor (shared storage)',
                         case, other_side.to_dense().tolist(), other_before.tolist(), tags=['copy_', 'shares-storage', kind])
        except Exception as e:  # noqa
            ctx.fail(f'copy_ into a {kind} destination / {op} raised {type(e).__name__}: {str(e)[:80]}', case, repr(e), None, tags=['copy_', 'raises', kind])


def run_clones(ctx):
    n = 200 if ctx.quick else 1500
    reqs, meta = [], []
    for k in range(n):
        nd = ctx.rng.choice([0, 1, 2, 2])
        types = [ptgen.random_type(ctx.rng) for _ in range(nd)]
        if math.prod(ptgen.ty_numel(t) for t in types) > 200:
            continue
        src = ptgen.random_pt(ctx.rng, types, values=[0.0, 1.0, 2.0, -1.0, 0.5], defaults=[0.0, 1.0, 2.0, -1.0])
        other = ptgen.random_pt(ctx.rng, types, values=[0.0, 1.0, 3.0], defaults=[0.0, 1.0])
        ops = [ctx.rng.choice(INPLACE) for _ in range(ctx.rng.randint(1, 6))]
        before = snap_tensor(src)
        before_other = snap_tensor(other)
        dense_before = src.to_dense().clone()
        c = src.clone()
        from .c06 import is_dense
        case = dict(src=ptgen.enc_pt(src), ops=ops)
        ctx.case(case, (case['src'], tuple(ops)) if not is_dense(src) else None, sample_every=100)
        ctx.count('clone-sequence')
        try:
            for op in ops:
                c = apply_inplace(c, op, other)
        except Exception as e:  # noqa
            ctx.count('inplace-raised.' + type(e).__name__)
        ctx.evaluations += 1
        if snap_tensor(src) != before or not ptgen.same_dense(src.to_dense(), dense_before):
            ctx.fail('an in-place operation on a clone changed the source PatternedTensor', case, None, None, tags=['clone-isolation', 'PatternedTensor'])
        if snap_tensor(other) != before_other:
            ctx.fail('copy_ wrote into its source argument', case, None, None, tags=['copy-src'])
        # the Lean heap model: same op sequence on the dense values
        reqs.append(f'C18.run {enc_list(dense_before.reshape(-1).tolist(), enc_ext)} {enc_list(other.to_dense().reshape(-1).tolist(), enc_ext)} {enc_list(ops)}')
        meta.append((case, c.to_dense().reshape(-1).tolist()))
    for (case, impl), rep in zip(meta, ctx.driver.ask_many(reqs)):
        if isinstance(rep, Exception): raise rep
        t = Toks(rep)
        unchanged = t.bool()
        model = t.list(t.opt_ext if hasattr(t, 'opt_ext') else (lambda: t.opt(t.ext)))
        if not unchanged:
            ctx.disagree('Hp.run: the model itself changed the source storage (theorem C18.clone_isolated would be false)', case, None, rep[:200])
        if len(model) != len(impl):
            ctx.disagree('Hp.run result length', case, impl, rep[:200]); continue
        for a, m in zip(impl, model):
            if m is None:
                continue     # transcendental (log of a non-special value): not compared
            ok = (isinstance(m, float) and (a == m or (a != a and m != m))) or (not isinstance(m, float) and abs(a - float(m)) <= 1e-12 * max(1.0, abs(float(m))))
            if not ok:
                ctx.disagree('Hp.run vs in-place operations on a clone', case, impl, rep[:300]); break
    run_copy_noncontiguous(ctx, 40 if ctx.quick else 400)
    # MultiTensor clone isolation
    sr = fggs.RealSemiring(dtype=torch.float64)
    shapes = {'x': torch.Size([2]), 'y': torch.Size([])}
    for k in range(120 if ctx.quick else 1500):
        m = MultiTensor(shapes, sr)
        for key in shapes:
            if ctx.rng.random() < 0.8:
                m[key] = PatternedTensor(torch.tensor([ctx.rng.choice([0.0, 1.0, 2.0]) for _ in range(shapes[key].numel())], dtype=torch.float64).reshape(shapes[key]))
        o = MultiTensor(shapes, sr)
        for key in shapes:
            if ctx.rng.random() < 0.8:
                o[key] = PatternedTensor(torch.tensor([ctx.rng.choice([0.0, 1.0, 3.0]) for _ in range(shapes[key].numel())], dtype=torch.float64).reshape(shapes[key]))
        before = {k_: snap_tensor(v) for k_, v in m.items()}
        before_o = {k_: snap_tensor(v) for k_, v in o.items()}
        c = m.clone()
        ops = [ctx.rng.choice(['iadd', 'isub', 'maximum_', 'copy_', 'add_single', 'entry_imul', 'entry_copy_', 'entry_neg_']) for _ in range(ctx.rng.randint(1, 4))]
        if k % 2 == 0:    # half of the sequences start with an operation that writes in place (before anything rebinds the entries)
            ops[0] = ctx.rng.choice(['copy_', 'entry_imul', 'entry_copy_', 'entry_neg_'])
        ctx.case(dict(multi=list(before), ops=ops), ('multi', k), sample_every=50)
        ctx.count('multi-clone-sequence')
        try:
            for op in ops:
                if op == 'iadd': c += o
                elif op == 'isub': c -= o
                elif op == 'maximum_': c.maximum_(o)
                elif op == 'copy_': c.copy_(o)
                elif op == 'add_single': c.add_single('x', PatternedTensor(torch.tensor([1.0, 1.0], dtype=torch.float64)))
                elif op.startswith('entry_'):
                    keys = list(c)
                    if keys:
                        key = ctx.rng.choice(keys)
                        if op == 'entry_imul': c[key] *= 3.0
                        elif op == 'entry_neg_': c[key].neg_()
                        else: c[key].copy_(PatternedTensor(torch.full(tuple(shapes[key]), 9.0, dtype=torch.float64)))
        except Exception as e:  # noqa
            ctx.fail(f'MultiTensor.{op} raised {type(e).__name__}: {str(e)[:80]}', dict(ops=ops, keys=list(before), other=list(before_o)), repr(e), None,
                     tags=['raises', 'MultiTensor', op, type(e).__name__])
        if {k_: snap_tensor(v) for k_, v in m.items()} != before:
            ctx.fail('an in-place operation on a clone changed the source MultiTensor', dict(ops=ops), None, None, tags=['clone-isolation', 'MultiTensor'])
        # (values only: `c += o` stores o's tensors in c by reference, and a later c.copy_(o) re-freshens their axes)
        # (not checked once an entry of c is written in place: after `c += o` / maximum_ an entry of c may BE o's tensor, which
        # the property — about the source of the clone — does not forbid)
        if not any(op.startswith('entry_') for op in ops) and \
                {k_: snap_tensor(v)[:5] for k_, v in o.items()} != {k_: v[:5] for k_, v in before_o.items()}:
            ctx.fail('an in-place MultiTensor operation changed its other argument', dict(ops=ops), None, None, tags=['multi-arg', 'MultiTensor'])


def replay(ctx, rep):
    run(ctx)
    return bool(ctx.failures or ctx.disagreements)
