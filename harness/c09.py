"""C09 — semiring linear solvers.  Semiring.solve, PatternedTensor.solve, multi_solve (also transposed)
and multi_mv against the Lean model of the Gauss–Jordan/Lehmann loop (`Sv.solveLoop`, exact rationals) and
against the specification (least solution by Kleene iteration: exact to stability for Bool/Viterbi; for
Real the model's value must be a fixed point, dominate the rounded-down partial sums, and the
implementation must agree with it).  Arguments must be left unmodified."""
import itertools, math
import torch
import fggs
from fggs.indices import PatternedTensor, PhysicalAxis
from fggs.multi import MultiTensor, multi_solve, multi_mv
from . import ptgen
from .common import enc_ext, enc_list, Toks

RULE = ('block systems: 1..3 blocks with block shapes in {(), (2,), (3,), (2,2)}, every subset of present (i,j) blocks for <= 2 blocks '
        '(sampled for 3), present/absent right-hand-side blocks; entries from {0,1/4,1/2,1,2,inf} (Real; spectral radius <1, =1, >1 all '
        'occur), {-inf,0,-1,-2,1} (Viterbi), Bool; dense and patterned (diagonal, shifted) blocks; x transpose; plus dense Semiring.solve and '
        'PatternedTensor.solve on n<=4 systems with vector and matrix right-hand sides, on typed random sparsity patterns and on the growth family, '
        'each also compared at the level of the REPRESENTATION with the model Ps.solve (pattern exactly, values exactly or within 1e-9) together with '
        'the per-job deciders Ps.closed / Ps.resolved; non-trivial = some off-diagonal block present')
ASSUMPTIONS = ['torch.linalg.solve (LU) is not modelled: when RealSemiring takes that path the result is compared within 1e-9 relative',
               'Real leastness of the dense solver on the carrier [0, inf] is proved (C09b) and additionally validated per case (fixed point + dominates the Kleene partial sums)']

REAL_V = [0.0, 0.25, 0.5, 1.0, 2.0, 0.0, 0.0, 0.25]
VIT_V = [-math.inf, 0.0, -1.0, -2.0, 1.0, -math.inf]


def srs():
    return {'real': fggs.RealSemiring(dtype=torch.float64), 'log': fggs.LogSemiring(dtype=torch.float64),
            'viterbi': fggs.ViterbiSemiring(dtype=torch.float64), 'bool': fggs.BoolSemiring()}


def rand_tensor(rng, shape, name, p_inf=0.03):
    n = math.prod(shape)
    if name == 'bool':
        return torch.tensor([rng.random() < 0.4 for _ in range(n)], dtype=torch.bool).reshape(shape)
    if name == 'viterbi':
        return torch.tensor([rng.choice(VIT_V) for _ in range(n)], dtype=torch.float64).reshape(shape)
    return torch.tensor([math.inf if rng.random() < p_inf else rng.choice(REAL_V) for _ in range(n)], dtype=torch.float64).reshape(shape)


def to_sr(t, name):
    return t.log() if name == 'log' else t


def from_sr(t, name):
    if name != 'log':
        return t
    r = t.exp()
    # a FINITE log-value whose exponential overflows (e.g. 3.4e38 where the least solution is +inf, i.e. log-value +inf) must not be
    # taken for +inf: it is mapped to the largest finite float, which the comparison with an infinite least solution rejects
    if r.is_floating_point():
        r = torch.where(torch.isfinite(t) & torch.isinf(r), torch.full_like(r, torch.finfo(r.dtype).max), r)
    return r


def enc_mat(a):
    return enc_list(a.tolist(), lambda r: enc_list(r, enc_ext))


def model_solve(ctx, name, a, b):
    """b: vector; returns (x_model, certified?, lfp or lower bound)"""
    op = {'real': 'real', 'log': 'real', 'viterbi': 'viterbi', 'bool': 'bool'}[name]
    rep = ctx.driver.ask(f'C09.solve {op} {enc_mat(a)} {enc_list(b.tolist(), enc_ext)} 200')
    t = Toks(rep)
    f = (lambda: t.next() == 'T') if op == 'bool' else t.ext
    x = t.list(f)
    flag = t.bool()
    other = t.list(f)
    return x, flag, other


def cmp_vec(impl, model, name):
    if len(impl) != len(model):
        return False
    for a, m in zip(impl, model):
        if name == 'bool':
            if bool(a) != m: return False
        elif isinstance(m, float):
            if not (a == m or (a != a and m != m)): return False
        else:
            tol = 1e-9 if name in ('real', 'log') else 0.0
            if math.isinf(a) or abs(a - float(m)) > tol * max(1.0, abs(float(m))): return False
    return True


def check_system(ctx, case, name, A, B, impl_X, what):
    """A: n x n, B: n x m dense (real side for log); impl_X dense n x m"""
    n, m = B.shape
    for col in range(m):
        x_model, flag, other = model_solve(ctx, name, A, B[:, col])
        impl = impl_X[:, col].tolist()
        ctx.evaluations += 1
        # model vs specification
        if name in ('viterbi', 'bool'):
            if flag and x_model != other:
                ctx.disagree('Sv.solveLoop differs from the least solution (Kleene iteration to stability)', dict(case, column=col), [str(v) for v in x_model], [str(v) for v in other])
            want = other if flag else x_model
        else:
            if not flag:
                ctx.disagree('Sv.solveLoop (Real) is not a fixed point of x = A x + b', dict(case, column=col), [str(v) for v in x_model], None)
            if not all((isinstance(xm, float) and xm == math.inf) or (not isinstance(lo, float) and not isinstance(xm, float) and lo <= xm) for xm, lo in zip(x_model, other)):
                ctx.disagree('Sv.solveLoop (Real) does not dominate the Kleene partial sums', dict(case, column=col), [str(v) for v in x_model], [str(v) for v in other])
            want = x_model
        if not cmp_vec(impl, want, name):
            tags = ['solve', name, what]
            if name in ('real', 'log') and _singular(A) and all(isinstance(v, float) and v > 1e9 and math.isfinite(v) for v, w_ in zip(impl, want)
                                                        if isinstance(w_, float) and w_ == math.inf):
                # I - A is EXACTLY singular (decided in rational arithmetic) and the implementation returned huge finite values where
                # the least solution is infinite: the LU fast path of RealSemiring.solve_thunks accepted a meaningless result
                tags += ['I-minus-A-singular', 'huge-finite-instead-of-inf']
            ctx.fail(f'{what} ({name}) does not return the least solution of x = A x + b', dict(case, column=col), impl, [str(v) for v in want],
                     tags=tags)


def _singular(A):
    """is I - A exactly singular?  (finite entries; Gaussian elimination over the rationals)"""
    from fractions import Fraction
    try:
        n = A.shape[0]
        M = [[Fraction(float(i == j)) - Fraction(float(A[i, j])) for j in range(n)] for i in range(n)]
    except (ValueError, OverflowError):
        return False
    for c in range(n):
        piv = next((r for r in range(c, n) if M[r][c] != 0), None)
        if piv is None:
            return True
        M[c], M[piv] = M[piv], M[c]
        for r in range(c + 1, n):
            f = M[r][c] / M[c][c]
            if f:
                M[r] = [a - f * b for a, b in zip(M[r], M[c])]
    return False


def share_axes(rng, pa, pb):
    """pb with some of its physical axes replaced by physical axes of pa of the same size (same values)"""
    from fggs.indices import ProductAxis, SumAxis, productAxis
    mapping = {}
    for k in pb.paxes:
        cands = [j for j in pa.paxes if j._numel == k._numel and j not in mapping.values()]
        if cands and rng.random() < 0.8:
            mapping[k] = rng.choice(cands)
    if not mapping:
        return pb
    def ren(e):
        if isinstance(e, PhysicalAxis):
            return mapping.get(e, e)
        if isinstance(e, ProductAxis):
            return ProductAxis(tuple(ren(f) for f in e.factors))
        return SumAxis(e.before, ren(e.term), e.after)
    return PatternedTensor(pb.physical, tuple(mapping.get(k, k) for k in pb.paxes), tuple(ren(e) for e in pb.vaxes), pb.default)


def queue_patsolve(ctx, name, pa, pb, xp, case):
    """queue the representation-level comparison of PatternedTensor.solve with the model `Ps.solve` (growth loop on patterns, relevant
    sub-matrices through project, dense elimination, pattern of the result)"""
    if name not in ('real', 'viterbi', 'bool') or any(k_._numel == 0 for k_ in tuple(pa.paxes) + tuple(pb.paxes)):
        return
    from fggs.indices import PhysicalAxis as _P, ProductAxis as _X
    ids = {}
    def enc(p_, tag):
        def key(k_):
            return ids.setdefault((tag, id(k_)), len(ids))
        pa_ = enc_list(p_.paxes, lambda k_: f'{key(k_)} {k_._numel}')
        def ea(e):
            if isinstance(e, _P): return f'P {key(e)} {e._numel}'
            if isinstance(e, _X): return 'X ' + enc_list(e.factors, ea)
            return f'S {e.before} {ea(e.term)} {e.after}'
        ph = p_.physical.to(torch.float64) if p_.physical.dtype == torch.bool else p_.physical
        return f'{enc_list(ph.contiguous().reshape(-1).tolist() if ph.numel() else [], enc_ext)} {pa_} {enc_list(p_.vaxes, ea)} {enc_ext(float(p_.default))}', ea
    ea_, _ = enc(pa, 'a'); eb_, _ = enc(pb, 'b')
    ids2 = {}
    def ea2(e):
        if isinstance(e, _P): return f'P {ids2.setdefault(id(e), len(ids2))} {e._numel}'
        if isinstance(e, _X): return 'X ' + enc_list(e.factors, ea2)
        return f'S {e.before} {ea2(e.term)} {e.after}'
    ph = xp.physical.to(torch.float64) if xp.physical.dtype == torch.bool else xp.physical
    vals = ph.contiguous().reshape(-1).tolist() if ph.numel() else []
    pat = f'{enc_list(xp.paxes, lambda k_: "P " + str(ids2.setdefault(id(k_), len(ids2))) + " " + str(k_._numel))} {enc_list(xp.vaxes, ea2)} {enc_ext(float(xp.default))}'
    ctx.extra.setdefault('_ps_reqs', []).append(f'C09.patsolve {name} {ea_} {eb_} {len(ids) + 3}')
    ctx.extra.setdefault('_ps_meta', []).append((dict(case, stream='patsolve-model'), name, vals, pat))


def run_patsolve_model(ctx):
    from .unifygen import canon
    from .common import dec_ext
    reqs, meta = ctx.extra.pop('_ps_reqs', []), ctx.extra.pop('_ps_meta', [])
    for (case, name, vals, pat), rep in zip(meta, ctx.driver.ask_many(reqs)):
        if isinstance(rep, Exception):
            raise rep
        ctx.evaluations += 1
        if not rep.startswith('ok'):
            ctx.disagree(f'Ps.solve: the model {rep.split()[0]} where PatternedTensor.solve returns a tensor', case, 'ok', rep[:100])
            continue
        toks = rep.split()[1:]
        i = 0; L = int(toks[i]); phys = toks[i + 1:i + 1 + L]; i += 1 + L
        P = int(toks[i]); pax = toks[i + 1:i + 1 + 2 * P]; i += 1 + 2 * P
        mp = [str(P)] + sum((['P', pax[2 * j], pax[2 * j + 1]] for j in range(P)), []) + toks[i:-2]
        wf, closed = toks[-2], toks[-1]
        ctx.count(f'patsolve-model.{name}.' + ('closed' if closed == 'T' else 'NOT-closed'))
        if canon(mp) != canon(pat.split()):
            ctx.disagree('Ps.solve: pattern of the result (physical axes, virtual axes, default)', case, pat, ' '.join(mp))
            continue
        mv = [dec_ext(x) for x in phys]
        ok = len(mv) == len(vals) and all((a == b) or (name == 'real' and math.isfinite(a) and math.isfinite(b) and abs(a - b) <= 1e-9 * max(1.0, abs(a), abs(b)))
                                          for a, b in zip(mv, vals))
        if not ok and name == 'real' and len(mv) == len(vals) and \
                all((a == b) or (math.isfinite(a) and math.isfinite(b) and abs(a - b) <= 1e-9 * max(1.0, abs(a), abs(b))) or
                    (a == math.inf and math.isfinite(b) and b > 1e9) for a, b in zip(mv, vals)):
            # finding D44 (exactly singular I - A: the LU fast path returns huge finite values where the least solution — the model's
            # value — is infinite): reported by the value check of this stream with its tags; the model is right, nothing to add here
            # (false alarm of sweep 7, seed 52: the disagreement was reported although the failing input is the known one)
            ctx.count('patsolve-model.real.D44-input')
            ok = True
        if not ok:
            ctx.disagree('Ps.solve: physical values of the result', case, vals, mv)
        if wf != 'T':
            ctx.disagree('Ps.solve: the model\'s result is not well formed (PT.wf)', case, 'T', wf)
        if closed != 'T':
            ctx.disagree('Ps.closed && Ps.resolved: the axis computed by the growth loop is not closed under A / does not cover b, or the fuel side condition of C09d.patsolve_cells fails', case, 'T', closed)


def run(ctx):
    S = srs()
    # ---- dense Semiring.solve and PatternedTensor.solve
    for k in range(40 if ctx.quick else 800):
        n = ctx.rng.randint(1, 4)
        m = ctx.rng.choice([None, 1, 2])
        for name in ('real', 'log', 'viterbi', 'bool'):
            base = 'real' if name == 'log' else name
            A = rand_tensor(ctx.rng, (n, n), base)
            if ctx.rng.random() < 0.4 and base != 'bool':
                A = A * (0.5 if base == 'real' else 1.0)
            B = rand_tensor(ctx.rng, (n,) if m is None else (n, m), base, p_inf=0.0)
            a_sr, b_sr = to_sr(A, name), to_sr(B, name)
            a0, b0 = a_sr.clone(), b_sr.clone()
            case = dict(semiring=name, A=A.tolist(), b=B.tolist())
            ctx.case(case, (name, str(A.tolist()), str(B.tolist())) if n >= 2 else None, sample_every=60)
            ctx.count(f'dense.{name}.n={n}')
            try:
                x = S[name].solve(a_sr, b_sr)
            except Exception as e:  # noqa
                ctx.fail(f'Semiring.solve raised {type(e).__name__}', case, repr(e), None, tags=['raises', name])
                continue
            if not (torch.equal(a_sr, a0) or (a_sr != a_sr).any()) or not torch.equal(b_sr, b0):
                ctx.fail('Semiring.solve modified its arguments', case, None, None, tags=['args-modified', 'Semiring.solve'])
            X = from_sr(x, name)
            check_system(ctx, case, name, A, B.reshape(n, -1), X.reshape(n, -1), 'Semiring.solve')
            # PatternedTensor.solve on patterned representations of the same system
            pa, pb = PatternedTensor(a_sr.clone(), default=S[name].from_int(0).item()), PatternedTensor(b_sr.clone(), default=S[name].from_int(0).item())
            if n >= 2 and ctx.rng.random() < 0.5:
                kx = PhysicalAxis(n)
                diag = to_sr(torch.diagonal(A).clone(), name)
                pa = PatternedTensor(diag, (kx,), (kx, kx), S[name].from_int(0).item())
                A2 = torch.diag(torch.diagonal(A)) if base != 'bool' else torch.diag(torch.diagonal(A).to(torch.int)).to(torch.bool)
                if base == 'viterbi':
                    A2 = torch.full((n, n), -math.inf, dtype=torch.float64); A2[range(n), range(n)] = torch.diagonal(A)
            else:
                A2 = A
            try:
                xp = pa.solve(pb, S[name])
                Xp = from_sr(xp.to_dense(), name)
                check_system(ctx, dict(case, A=A2.tolist(), patterned=True), name, A2, B.reshape(n, -1), Xp.reshape(n, -1), 'PatternedTensor.solve')
            except Exception as e:  # noqa
                ctx.fail(f'PatternedTensor.solve raised {type(e).__name__}: {str(e)[:80]}', case, repr(e), None, tags=['raises', 'PatternedTensor.solve', name])
    # ---- PatternedTensor.solve on typed random sparsity patterns of A and b (products, sums, shared axes, structurally disjoint
    #      patterns such as A living in one component of a sum type and b in the other)
    from . import ptgen
    for k in range(60 if ctx.quick else 1200):
        ty = ptgen.random_type(ctx.rng, depth=ctx.rng.choice([1, 1, 2]), sizes=[1, 2, 3, 2])
        n = ptgen.ty_numel(ty)
        if n > 6:
            continue
        tyb = [ty] + ([ptgen.random_type(ctx.rng, depth=1, sizes=[1, 2, 3])] if ctx.rng.random() < 0.4 else [])
        for name in ('real', 'log', 'viterbi', 'bool'):
            base = 'real' if name == 'log' else name
            zero = {'real': 0.0, 'viterbi': -math.inf, 'bool': False}[base]
            if base == 'bool':
                pa = ptgen.random_pt(ctx.rng, [ty, ty], bool_=True, p_dense=0.15)
                pb = ptgen.random_pt(ctx.rng, tyb, bool_=True, p_dense=0.15)
                pa.default = False; pb.default = False
            else:
                vals = [0.0, 0.25, 0.125, 0.5, 0.0, 1.0] if base == 'real' else VIT_V
                pa = ptgen.random_pt(ctx.rng, [ty, ty], values=vals, defaults=[zero], specials=0.0, p_dense=0.15)
                pb = ptgen.random_pt(ctx.rng, tyb, values=[0.0, 1.0, 2.0, 0.5] if base == 'real' else VIT_V, defaults=[zero], specials=0.0, p_dense=0.15)
                if k % 4 == 0:
                    # b built over a's own PhysicalAxis objects in other roles (solve must rename them apart)
                    pb = share_axes(ctx.rng, pa, pb)
            A, B = pa.to_dense(), pb.to_dense().reshape(n, -1)
            if name == 'log':
                pa = PatternedTensor(pa.physical.log(), pa.paxes, pa.vaxes, -math.inf)
                pb = PatternedTensor(pb.physical.log(), pb.paxes, pb.vaxes, -math.inf)
            case = dict(semiring=name, A=A.tolist(), b=B.tolist(), a_pattern=ptgen.enc_pt(pa) if name != 'log' else None, b_pattern=ptgen.enc_pt(pb) if name != 'log' else None)
            from .c06 import is_dense
            ctx.case(case, (name, str(case['a_pattern']), str(case['b_pattern'])) if not (is_dense(pa) and is_dense(pb)) else None, sample_every=80)
            ctx.count(f'patterned-solve.{name}')
            da, db = pa.to_dense().clone(), pb.to_dense().clone()
            try:
                xp = pa.solve(pb, S[name])
                Xp = from_sr(xp.to_dense(), name)
            except Exception as e:  # noqa
                disjoint = bool((torch.as_tensor(A != zero).to(torch.float64) @ torch.as_tensor(B != zero).to(torch.float64) == 0).all())
                ctx.fail(f'PatternedTensor.solve raised {type(e).__name__}: {str(e)[:80]}', case, repr(e), None,
                         tags=['raises', 'PatternedTensor.solve', name, type(e).__name__] + (['A@b-structurally-zero'] if disjoint else []))
                continue
            if not ptgen.same_dense(pa.to_dense(), da) or not ptgen.same_dense(pb.to_dense(), db):
                ctx.fail('PatternedTensor.solve modified its arguments', case, None, None, tags=['args-modified', 'PatternedTensor.solve'])
            if list(Xp.shape) != list(pb.shape):
                ctx.fail('PatternedTensor.solve returned a result of the wrong shape', case, list(Xp.shape), list(pb.shape), tags=['shape', 'PatternedTensor.solve'])
                continue
            check_system(ctx, dict(case, patterned=True), name, A, B, Xp.reshape(n, -1), 'PatternedTensor.solve')
            queue_patsolve(ctx, name, pa, pb, xp, dict(semiring=name, a_pattern=case['a_pattern'], b_pattern=case['b_pattern']))
    # ---- structured family: A stored over three physical axes (k, j, i) as (k*j, j'*i) with j = j' shared, b a diagonal (d*d) or
    #      a product (d*e) whose axes are fresh or are A's own axis objects (solve must rename b apart from A)
    from fggs.indices import ProductAxis
    for rep_ in range(1 if ctx.quick else 6):
        for which in itertools.product(('fresh', 'k', 'j', 'i'), repeat=2):
            for name in ('real', 'log', 'viterbi', 'bool'):
                base = 'real' if name == 'log' else name
                zero = {'real': 0.0, 'viterbi': -math.inf, 'bool': False}[base]
                n = 2
                k_, j_, i_ = PhysicalAxis(n), PhysicalAxis(n), PhysicalAxis(n)
                pick = lambda w: {'fresh': PhysicalAxis(n), 'k': k_, 'j': j_, 'i': i_}[w]
                d, e = pick(which[0]), pick(which[1])
                if base == 'bool':
                    pa_phys = torch.tensor([ctx.rng.random() < 0.5 for _ in range(8)]).reshape(2, 2, 2)
                    pb_phys = torch.tensor([ctx.rng.random() < 0.7 for _ in range(n if d is e else n * n)]).reshape((n,) if d is e else (n, n))
                elif base == 'viterbi':
                    pa_phys = torch.tensor([ctx.rng.choice(VIT_V) for _ in range(8)], dtype=torch.float64).reshape(2, 2, 2)
                    pb_phys = torch.tensor([ctx.rng.choice(VIT_V) for _ in range(n if d is e else n * n)], dtype=torch.float64).reshape((n,) if d is e else (n, n))
                else:
                    pa_phys = torch.tensor([ctx.rng.choice([0.0, 0.25, 0.125, 0.5]) for _ in range(8)], dtype=torch.float64).reshape(2, 2, 2)
                    pb_phys = torch.tensor([ctx.rng.choice([0.5, 1.0, 2.0, 0.0]) for _ in range(n if d is e else n * n)], dtype=torch.float64).reshape((n,) if d is e else (n, n))
                pa = PatternedTensor(pa_phys, (k_, j_, i_), (ProductAxis((k_, j_)), ProductAxis((j_, i_))), zero)
                pb = PatternedTensor(pb_phys, (d,) if d is e else (d, e), (ProductAxis((d, e)),), zero)
                A, B = pa.to_dense(), pb.to_dense().reshape(n * n, -1)
                if name == 'log':
                    pa = PatternedTensor(pa.physical.log(), pa.paxes, pa.vaxes, -math.inf)
                    pb = PatternedTensor(pb.physical.log(), pb.paxes, pb.vaxes, -math.inf)
                case = dict(semiring=name, A=A.tolist(), b=B.tolist(), family='(k*j, j*i) with b over ' + '*'.join(which))
                ctx.case(case, ('shared-family', name, which, str(A.tolist()), str(B.tolist())), sample_every=40)
                ctx.count(f'patterned-solve.shared-family.{name}')
                da, db = pa.to_dense().clone(), pb.to_dense().clone()
                try:
                    Xp = from_sr(pa.solve(pb, S[name]).to_dense(), name)
                except Exception as ex:  # noqa
                    ctx.fail(f'PatternedTensor.solve raised {type(ex).__name__}: {str(ex)[:80]}', case, repr(ex), None,
                             tags=['raises', 'PatternedTensor.solve', name, type(ex).__name__])
                    continue
                if not ptgen.same_dense(pa.to_dense(), da) or not ptgen.same_dense(pb.to_dense(), db):
                    ctx.fail('PatternedTensor.solve modified its arguments', case, None, None, tags=['args-modified', 'PatternedTensor.solve'])
                if list(Xp.shape) != list(pb.shape):
                    ctx.fail('PatternedTensor.solve returned a result of the wrong shape', case, list(Xp.shape), list(pb.shape), tags=['shape', 'PatternedTensor.solve'])
                    continue
                check_system(ctx, dict(case, patterned=True), name, A, B, Xp.reshape(n * n, -1), 'PatternedTensor.solve')
    # ---- growth family: patterns on an index space {0..n-1}^2 for which the support of b + A b + A^2 b + ... grows in SEVERAL steps
    #      (A maps column (x, c) to row (r, x), or (c, x) to (x, r), ...; b sits on a one-hot point, a one-hot row or column): the
    #      least-dense solution pattern has to be re-derived with fresh bindings at every round of the growth loop
    from fggs.indices import SumAxis, unitAxis
    def onehot(i, n):
        return SumAxis(i, unitAxis, n - i - 1)
    def growth_steps(n, form, r, c, bform, p0, q0):
        """number of rounds in which the support of b + A b + ... strictly grows (dense reachability)"""
        rowf = (lambda x: (r, x)) if form.startswith('rx') else (lambda x: (x, r))
        colf = (lambda x: (x, c)) if form.endswith('xc') else (lambda x: (c, x))
        step = {colf(x): rowf(x) for x in range(n)}
        sup = {(p0, q0)} if bform == 'point' else {(p0, y) for y in range(n)} if bform == 'row' else {(y, q0) for y in range(n)}
        k = 0
        while True:
            new = sup | {step[v] for v in sup if v in step}
            if new == sup:
                return k
            sup, k = new, k + 1
    for rep_ in range(12 if ctx.quick else 120):
        for _try in range(60):
            n = ctx.rng.choice([2, 3])
            r, c = ctx.rng.randrange(n), ctx.rng.randrange(n)
            form = ctx.rng.choice(['rx<-xc', 'xr<-cx', 'rx<-cx', 'xr<-xc'])
            bform = ctx.rng.choice(['point', 'row', 'col', 'point'])
            p0, q0 = ctx.rng.randrange(n), ctx.rng.randrange(n)
            g = growth_steps(n, form, r, c, bform, p0, q0)
            if g >= 2 or (rep_ % 4 == 3 and g >= 1):
                break
        ctx.count(f'patterned-solve.growth-family.steps={g}')
        for name in ('real', 'log', 'viterbi', 'bool'):
            base = 'real' if name == 'log' else name
            zero = {'real': 0.0, 'viterbi': -math.inf, 'bool': False}[base]
            k_ = PhysicalAxis(n)
            row = ProductAxis((onehot(r, n), k_)) if form.startswith('rx') else ProductAxis((k_, onehot(r, n)))
            col = ProductAxis((k_, onehot(c, n))) if form.endswith('xc') else ProductAxis((onehot(c, n), k_))
            if base == 'bool':
                pa_phys = torch.tensor([ctx.rng.random() < 0.8 for _ in range(n)])
            elif base == 'viterbi':
                pa_phys = torch.tensor([ctx.rng.choice([0.0, -1.0, -2.0, -1.0]) for _ in range(n)], dtype=torch.float64)
            else:
                pa_phys = torch.tensor([ctx.rng.choice([0.25, 0.125, 0.5, 0.5]) for _ in range(n)], dtype=torch.float64)
            pa = PatternedTensor(pa_phys, (k_,), (row, col), zero)
            l_ = PhysicalAxis(n)
            if bform == 'point':
                bv, bp = ProductAxis((onehot(p0, n), onehot(q0, n))), ()
            elif bform == 'row':
                bv, bp = ProductAxis((onehot(p0, n), l_)), (l_,)
            else:
                bv, bp = ProductAxis((l_, onehot(q0, n))), (l_,)
            shp = tuple(a.numel() for a in bp)
            if base == 'bool':
                pb_phys = torch.ones(shp, dtype=torch.bool)
            elif base == 'viterbi':
                pb_phys = torch.tensor([ctx.rng.choice([0.0, -1.0]) for _ in range(max(1, n if bp else 1))][:n if bp else 1], dtype=torch.float64).reshape(shp)
            else:
                pb_phys = torch.tensor([ctx.rng.choice([1.0, 2.0, 0.5]) for _ in range(n if bp else 1)], dtype=torch.float64).reshape(shp)
            pb = PatternedTensor(pb_phys, bp, (bv,), zero)
            A, B = pa.to_dense(), pb.to_dense().reshape(n * n, -1)
            if name == 'log':
                pa = PatternedTensor(pa.physical.log(), pa.paxes, pa.vaxes, -math.inf)
                pb = PatternedTensor(pb.physical.log(), pb.paxes, pb.vaxes, -math.inf)
            case = dict(semiring=name, A=A.tolist(), b=B.tolist(), family=f'growth {form} r={r} c={c} b={bform}({p0},{q0}) n={n}')
            ctx.case(case, ('growth-family', name, form, r, c, bform, p0, q0, n), sample_every=40)
            ctx.count(f'patterned-solve.growth-family.{name}')
            da, db = pa.to_dense().clone(), pb.to_dense().clone()
            try:
                xp_ = pa.solve(pb, S[name])
                Xp = from_sr(xp_.to_dense(), name)
            except Exception as ex:  # noqa
                ctx.fail(f'PatternedTensor.solve raised {type(ex).__name__}: {str(ex)[:80]}', case, repr(ex), None,
                         tags=['raises', 'PatternedTensor.solve', name, type(ex).__name__])
                continue
            if not ptgen.same_dense(pa.to_dense(), da) or not ptgen.same_dense(pb.to_dense(), db):
                ctx.fail('PatternedTensor.solve modified its arguments', case, None, None, tags=['args-modified', 'PatternedTensor.solve'])
            if list(Xp.shape) != list(pb.shape):
                ctx.fail('PatternedTensor.solve returned a result of the wrong shape', case, list(Xp.shape), list(pb.shape), tags=['shape', 'PatternedTensor.solve'])
                continue
            check_system(ctx, dict(case, patterned=True), name, A, B, Xp.reshape(n * n, -1), 'PatternedTensor.solve')
            queue_patsolve(ctx, name, pa, pb, xp_, dict(semiring=name, family=case['family']))
    # ---- corpus: systems on which an LU answer is slightly negative / -0.0 and must be rejected
    for A, B in [([[2.0]], [1e-4]), ([[1.5]], [1e-5]), ([[0.5, 1.0], [1.0, 0.5]], [1e-4, 1e-4]), ([[1.0]], [0.0]), ([[math.inf]], [0.0]),
                 ([[0.0, 2.0], [2.0, 0.0]], [1e-5, 0.0]),
                 # divergent systems whose formal LU solution is negative but tiny (below machine epsilon): the sign, not the size, decides
                 ([[2.0]], [1e-17]), ([[2.0]], [1e-300]), ([[1e8]], [1.0]), ([[1e17]], [1.0]), ([[0.0, 2.0], [2.0, 0.0]], [1e-18, 0.0]),
                 ([[0.0, 2.0], [2.0, 0.0]], [1e-9, 0.0]), ([[3.0, 0.0], [0.0, 0.5]], [1e-20, 1.0])]:
        A_t, B_t = torch.tensor(A, dtype=torch.float64), torch.tensor(B, dtype=torch.float64)
        case = dict(semiring='real', A=A, b=B, corpus=True)
        ctx.case(case, ('corpus', str(A), str(B)))
        x = S['real'].solve(A_t, B_t)
        check_system(ctx, case, 'real', A_t, B_t.reshape(len(B), 1), x.reshape(len(B), 1), 'Semiring.solve')
    run_patsolve_model(ctx)
    # ---- multi_solve / multi_mv
    shapes_pool = [(), (2,), (3,), (2, 2)]
    for k in range(40 if ctx.quick else 700):
        nb = ctx.rng.randint(1, 3)
        keys = [f'k{i}' for i in range(nb)]
        shp = {x: torch.Size(ctx.rng.choice(shapes_pool)) for x in keys}
        present = [(x, y) for x in keys for y in keys if ctx.rng.random() < 0.6]
        bpresent = [x for x in keys if ctx.rng.random() < 0.75]
        transpose = ctx.rng.random() < 0.5
        for name in ('real', 'viterbi', 'bool'):
            sr = S[name]
            zero = sr.from_int(0).item()
            a = MultiTensor((shp, shp), sr)
            b = MultiTensor(shp, sr)
            dense_blocks = {}
            for (x, y) in present:
                t = rand_tensor(ctx.rng, tuple(shp[x]) + tuple(shp[y]), name)
                if name == 'real':
                    t = t * 0.5
                a[x, y] = PatternedTensor(t, default=zero)
                dense_blocks[x, y] = t
            bd = {}
            for x in bpresent:
                t = rand_tensor(ctx.rng, tuple(shp[x]), name, p_inf=0.0)
                b[x] = PatternedTensor(t, default=zero)
                bd[x] = t
            # assemble the dense system
            sizes = {x: shp[x].numel() for x in keys}
            off = {}
            tot = 0
            for x in keys:
                off[x] = tot; tot += sizes[x]
            A = torch.full((tot, tot), zero, dtype=torch.bool if name == 'bool' else torch.float64)
            Bv = torch.full((tot,), zero, dtype=A.dtype)
            for (x, y), t in dense_blocks.items():
                blk = t.reshape(sizes[x], sizes[y])
                if transpose:
                    A[off[y]:off[y] + sizes[y], off[x]:off[x] + sizes[x]] = blk.T
                else:
                    A[off[x]:off[x] + sizes[x], off[y]:off[y] + sizes[y]] = blk
            for x, t in bd.items():
                Bv[off[x]:off[x] + sizes[x]] = t.reshape(-1)
            case = dict(semiring=name, shapes={x: list(shp[x]) for x in keys}, present=present, b_present=bpresent, transpose=transpose,
                        A=A.tolist(), b=Bv.tolist())
            ctx.case(case, (name, str(case['A']), str(case['b']), transpose) if any(x != y for x, y in present) else None, sample_every=50)
            ctx.count(f'multi.{name}.blocks={nb}')
            snap_a = {k_: v.to_dense().clone() for k_, v in a.items()}
            snap_b = {k_: v.to_dense().clone() for k_, v in b.items()}
            try:
                xs = multi_solve(a, b, transpose=transpose)
            except Exception as e:  # noqa
                ctx.fail(f'multi_solve raised {type(e).__name__}: {str(e)[:80]}', case, repr(e), None, tags=['raises', 'multi_solve', name])
                continue
            if set(a.keys()) != set(snap_a) or set(b.keys()) != set(snap_b) or \
               any(not ptgen.same_dense(a[k_].to_dense(), v) for k_, v in snap_a.items()) or any(not ptgen.same_dense(b[k_].to_dense(), v) for k_, v in snap_b.items()):
                ctx.fail('multi_solve modified its arguments', case, None, None, tags=['args-modified', 'multi_solve'])
            X = torch.full((tot,), zero, dtype=A.dtype)
            for x in keys:
                if x in xs:
                    X[off[x]:off[x] + sizes[x]] = xs[x].to_dense().reshape(-1)
            check_system(ctx, case, name, A, Bv.reshape(tot, 1), X.reshape(tot, 1), 'multi_solve')
            # the block elimination itself: the model `Ms.multiSolve` run with the elimination order the implementation chose
            from fggs.multi import _order_nonterminals
            kidx = {x: i for i, x in enumerate(keys)}
            order = [kidx[x] for x in _order_nonterminals(a)]
            encs = (lambda v: enc_ext(bool(v))) if name == 'bool' else enc_ext
            enc_a = enc_list(list(dense_blocks.items()), lambda kv: f'{kidx[kv[0][0]]} {kidx[kv[0][1]]} ' +
                             enc_list(kv[1].reshape(sizes[kv[0][0]], sizes[kv[0][1]]).tolist(), lambda row: enc_list(row, encs)))
            enc_b = enc_list(list(bd.items()), lambda kv: f'{kidx[kv[0]]} ' + enc_list(kv[1].reshape(-1).tolist(), encs))
            rep = ctx.driver.ask(f'C09.multiSolve {name} {enc_list([sizes[x] for x in keys])} {enc_list(order)} {enc_a} {enc_b} {"T" if transpose else "F"}')
            tk = Toks(rep)
            mblocks = tk.list(lambda: tk.list((lambda: tk.next() == 'T') if name == 'bool' else tk.ext))
            from . import semgen
            ctx.evaluations += 1
            if sorted(order) != (list(range(len(keys))) if present else []):     # no block at all: nothing to eliminate, order is empty
                ctx.fail('_order_nonterminals is not a permutation of the nonterminals', case, order, list(range(len(keys))), tags=['multi_solve', 'order'])
            for x in keys:
                got = xs[x].to_dense().reshape(-1).tolist() if x in xs else [zero] * sizes[x]
                m = mblocks[kidx[x]]
                def _eq(g, c):
                    if semgen.exact_eq(g, c, torch.float64):
                        return True
                    # Real: the LU fast path of RealSemiring.solve_thunks (torch.linalg.solve, not modelled) rounds: an exact 0 may come
                    # out as 5e-17 (false alarm of sweep 6, seed 41); values are compared within 1e-9 relative / 1e-12 absolute
                    if name == 'real' and not isinstance(c, float) and isinstance(g, float) and math.isfinite(g):
                        return abs(g - float(c)) <= 1e-12 + 1e-9 * abs(float(c))
                    return False
                if len(got) != len(m) or not all(_eq(g, c) for g, c in zip(got, m)):
                    if name == 'real' and len(got) == len(m) and _singular(A) and \
                            all(semgen.exact_eq(g, c, torch.float64) or (isinstance(c, float) and c == math.inf and math.isfinite(g) and g > 1e9)
                                for g, c in zip(got, m)):
                        # finding D44 (exactly singular I - A, the LU fast path returns huge finite values where the least solution is
                        # infinite): reported by check_system above with its tags; the model is right, nothing to add here
                        ctx.count('multi_solve.model.D44-input')
                        continue
                    ctx.disagree('Ms.multiSolve (block elimination in the implementation\'s order) vs multi_solve', dict(case, order=order, block=x), got, [str(c) for c in m])
                    break
            # multi_mv equals the dense matrix-vector product
            try:
                mv = multi_mv(a, b, transpose=transpose)
                Y = torch.full((tot,), zero, dtype=A.dtype)
                for x in keys:
                    if x in mv:
                        Y[off[x]:off[x] + sizes[x]] = mv[x].to_dense().reshape(-1)
                if name == 'real':
                    want = torch.nan_to_num(A * Bv.unsqueeze(0), nan=0.0, posinf=math.inf).sum(1)
                elif name == 'viterbi':
                    want = torch.nan_to_num(A + Bv.unsqueeze(0), nan=-math.inf, neginf=-math.inf, posinf=math.inf).max(1)[0] if tot else Y
                else:
                    want = (A & Bv.unsqueeze(0)).any(1)
                ctx.evaluations += 1
                if not ptgen.same_dense(Y, want):
                    ctx.fail('multi_mv differs from the dense matrix-vector product', case, Y.tolist(), want.tolist(), tags=['multi_mv', name])
            except Exception as e:  # noqa
                ctx.fail(f'multi_mv raised {type(e).__name__}: {str(e)[:80]}', case, repr(e), None, tags=['raises', 'multi_mv', name])


def replay(ctx, rep):
    run(ctx)
    return bool(ctx.failures or ctx.disagreements)
