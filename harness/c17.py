"""C17 — conjunction.  Pairs of HRGs over shared node/edge ids; real conjoin_hrgs vs `Cj.conjoin`
(exact: start label, rule list in order, every edge) and the property itself evaluated directly:
fresh injective names, rule shape, derivation counts to a depth bound vs paired derivations,
ValueError exactly on genuine terminal-label conflicts."""
import itertools
import fggs
from fggs import NodeLabel, EdgeLabel, Node, Edge, Graph, HRG, HRGRule
from fggs.conjunction import conjoin_hrgs, nonterminal_pairs, conjoinable
from .common import enc_list, enc_bool, Toks
from .c14 import tok, untok

RULE = ('pairs of HRGs built from shared skeletons (same node ids and nonterminal edge ids), 1..3 rules per skeleton per grammar, '
        'skeletons present in one grammar only, nonterminal names drawn from a pool with clashes (X + "Y,Z" vs "X,Y" + Z, a terminal '
        'called "<X,Y>"), terminal-label conflicts, shared terminal edge ids and mixed explicit/implicit edge ids in separate streams; '
        'non-trivial = at least one conjoinable rule pair with a nonterminal edge')
ASSUMPTIONS = ['the derivation bijection is a theorem about the model (C17b, hypothesis Cj.wfHRG evaluated on every generated grammar); on the implementation derivations are additionally counted to depth 3 against paired derivations']

NT_NAMES = ['X', 'Y', 'Z', 'X,Y', 'Y,Z', 'S', 'T', '<X,Y>', '<X,Y>_1', '<Y,X>']   # incl. names that look like pairs already


def make_pair(rng, *, shared_terminal_ids=False, mixed_ids=False, term_conflict=False):
    A, B = NodeLabel('A'), NodeLabel('B')
    nls = [A, B]
    n_nt = rng.randint(1, 3)
    names1 = rng.sample(NT_NAMES, n_nt)
    names2 = rng.sample(NT_NAMES, n_nt)
    # nonterminal k of both grammars has the same type
    types = [[rng.choice(nls) for _ in range(rng.randint(0, 2))] for _ in range(n_nt)]
    N1 = [EdgeLabel(n, t, is_nonterminal=True) for n, t in zip(names1, types)]
    N2 = [EdgeLabel(n, t, is_nonterminal=True) for n, t in zip(names2, types)]
    tnames = [t_ for t_ in ['a', 'b', 'c', '<X,Y>', '<X,Y,Z>'] if t_ not in names1 and t_ not in names2]   # one name, one label per grammar
    ttypes = {n: [rng.choice(nls) for _ in range(rng.randint(0, 2))] for n in tnames}
    T1 = {n: EdgeLabel(n, ttypes[n], is_terminal=True) for n in tnames}
    T2 = dict(T1)
    if term_conflict:
        n = rng.choice(tnames)
        if ttypes[n] and rng.random() < 0.6:
            # same name, same arity, another node label at one position
            i = rng.randrange(len(ttypes[n]))
            ty = list(ttypes[n]); ty[i] = B if ty[i] == A else A
            T2[n] = EdgeLabel(n, ty, is_terminal=True)
        else:
            T2[n] = EdgeLabel(n, ttypes[n] + [A], is_terminal=True)
    g1, g2 = HRG(N1[0]), HRG(N2[0])
    n_skel = rng.randint(1, 4)
    used_conflict = False
    for s in range(n_skel):
        lhs = rng.randrange(n_nt)
        # skeleton: nodes with explicit ids, ext, nonterminal edges with ids
        nodes = [Node(l, f's{s}v{i}') for i, l in enumerate(types[lhs])]
        ext = list(nodes)
        for i in range(rng.randint(0, 3)):
            nodes.append(Node(rng.choice(nls), f's{s}w{i}'))
        nt_edges = []
        for i in range(rng.randint(0, 3)):
            k = rng.randrange(n_nt)
            att = []
            ok = True
            for l in types[k]:
                c = [v for v in nodes if v.label == l]
                if not c:
                    ok = False; break
                att.append(rng.choice(c))
            if ok:
                eid = f's{s}e{i}' if not (mixed_ids and i == 1) else None
                nt_edges.append((k, att, eid))
        shared_objs = {}
        for which, (g, N, T) in enumerate(((g1, N1, T1), (g2, N2, T2))):
            if rng.random() < 0.2 and n_skel > 1:
                continue     # skeleton present in the other grammar only
            for r in range(rng.randint(1, 2)):
                rhs = Graph()
                # each rule inserts the shared nodes and nonterminal edges in its own order
                for v in rng.sample(nodes, len(nodes)) if rng.random() < 0.6 else nodes:
                    rhs.add_node(v)
                ext_r = ext
                if ext and rng.random() < 0.15:
                    # a different sequence of external nodes with the same labels (a permutation, or another node of
                    # the same label, or a repetition): such rules are not conjoinable with the others
                    ext_r = [rng.choice([v for v in nodes if v.label == x.label]) for x in ext]
                    if rng.random() < 0.5 and len(ext) == 2 and ext[0].label == ext[1].label:
                        ext_r = [ext[1], ext[0]]
                rhs.ext = ext_r
                order = list(enumerate(nt_edges))
                if rng.random() < 0.6:
                    rng.shuffle(order)
                for i, (k, att, eid) in order:
                    if eid is None:
                        # an implicit id can only be shared by sharing the Edge object... which carries one label;
                        # so both grammars must use the same label there: only possible if the names agree
                        key = (s, i)
                        if key not in shared_objs:
                            shared_objs[key] = Edge(N[k], att)
                        e = shared_objs[key]
                        if e.label != N[k]:
                            e = Edge(N[k], att)
                        rhs.add_edge(e)
                    else:
                        # the two grammars need not label a shared edge "alike": any nonterminal of the same type will do, so two edges
                        # labelled X, X in one grammar may be labelled A, B in the other (the NUMBER of distinct labels differs)
                        k2 = k
                        if which == 1 and rng.random() < 0.35:
                            k2 = rng.choice([j for j in range(n_nt) if types[j] == types[k]])
                        rhs.add_edge(Edge(N[k2], att, id=eid))
                if rng.random() < 0.12:
                    # history: a nonterminal edge added and removed again (its label stays registered in the right-hand side)
                    try:
                        k3 = rng.randrange(n_nt)
                        att3 = [rng.choice([v for v in nodes if v.label == l]) for l in types[k3]]
                        e3 = Edge(N[k3], att3, id=f's{s}stale')
                        rhs.add_edge(e3); rhs.remove_edge(e3)
                    except (ValueError, IndexError):
                        pass
                for t in range(rng.randint(0, 2)):
                    tn = rng.choice(tnames)
                    att = []
                    ok = True
                    for l in T[tn].type:
                        c = [v for v in nodes if v.label == l]
                        if not c:
                            ok = False; break
                        att.append(rng.choice(c))
                    if ok:
                        tid = f's{s}t{t}' if shared_terminal_ids else f'g{which}s{s}r{r}t{t}'
                        try:
                            rhs.add_edge(Edge(T[tn], att, id=tid))
                        except ValueError:
                            pass
                g.add_rule(HRGRule(N[lhs], rhs))
    return g1, g2


def enc_id(i):
    return f'str {tok(i)}' if isinstance(i, str) else f'int {i}'


def enc_label(l):
    return f'{tok(l.name)} {enc_list([tok(x.name) for x in l.type])} {enc_bool(l.is_terminal)}'


def enc_node(v):
    return f'{tok(v.label.name)} {enc_id(v.id)}'


def enc_edge(e):
    return f'{enc_label(e.label)} {enc_list(e.nodes, enc_node)} {enc_id(e.id)}'


def enc_rule(r):
    return f'{enc_label(r.lhs)} {enc_list(r.rhs.nodes(), enc_node)} {enc_list(r.rhs.edges(), enc_edge)} {enc_list(r.rhs.ext, enc_node)}'


def enc_hrg(g):
    return f'{enc_label(g.start)} {enc_list(g.edge_labels(), enc_label)} {enc_list(g.all_rules(), enc_rule)}'


def count_derivs(g, nt, depth, memo):
    key = (nt, depth)
    if key in memo:
        return memo[key]
    total = 0
    for r in g.rules(nt):
        kids = [e.label for e in r.rhs.edges() if e.label.is_nonterminal]
        if kids and depth == 0:
            continue
        p = 1
        for k in kids:
            p *= count_derivs(g, k, depth - 1, memo)
            if p == 0:
                break
        total += p
    memo[key] = total
    return total


def count_pairs(g1, g2, x1, x2, depth, memo):
    key = (x1, x2, depth)
    if key in memo:
        return memo[key]
    total = 0
    for r1 in g1.rules(x1):
        for r2 in g2.rules(x2):
            if not conjoinable_spec(r1, r2):
                continue
            e1 = {e.id: e for e in r1.rhs.edges() if e.label.is_nonterminal}
            e2 = {e.id: e for e in r2.rhs.edges() if e.label.is_nonterminal}
            if e1 and depth == 0:
                continue
            p = 1
            for i in e1:
                p *= count_pairs(g1, g2, e1[i].label, e2[i].label, depth - 1, memo)
                if p == 0:
                    break
            total += p
    memo[key] = total
    return total


def conjoinable_spec(r1, r2):
    """same nodes, same external nodes, same nonterminal edges by id and attachment"""
    if set(r1.rhs.nodes()) != set(r2.rhs.nodes()):
        return False
    if [v.id for v in r1.rhs.ext] != [v.id for v in r2.rhs.ext]:
        return False
    a = {(e.id, tuple(v.id for v in e.nodes)) for e in r1.rhs.edges() if e.label.is_nonterminal}
    b = {(e.id, tuple(v.id for v in e.nodes)) for e in r2.rhs.edges() if e.label.is_nonterminal}
    return a == b


def run(ctx):
    n = 500 if ctx.quick else 4000
    reqs, meta = [], []
    g1s, g2s = {}, {}
    for k in range(n):
        c = ctx.rng.random()
        flags = dict(shared_terminal_ids=0.74 <= c < 0.82, mixed_ids=0.82 <= c < 0.87, term_conflict=0.87 <= c)
        if k == 0:
            # corpus: the minimal input of the recorded finding D15 (shared terminal edge id)
            flags = dict(shared_terminal_ids=True, mixed_ids=False, term_conflict=False)
            A = NodeLabel('A'); S1 = EdgeLabel('S', [], is_nonterminal=True); S2 = EdgeLabel('T', [], is_nonterminal=True)
            ta = EdgeLabel('a', [A], is_terminal=True); v = Node(A, 'v')
            g1, g2 = HRG(S1), HRG(S2)
            for g, S in ((g1, S1), (g2, S2)):
                rhs = Graph(); rhs.add_node(v); rhs.add_edge(Edge(ta, [v], id='e')); g.add_rule(HRGRule(S, rhs))
        elif k == 1:
            # corpus: a terminal of the same name and arity but another node label in the two grammars, used only in rules that are
            # not conjoinable with each other (nothing downstream trips over it): a genuine conflict that must be reported
            flags = dict(shared_terminal_ids=False, mixed_ids=False, term_conflict=True)
            A, B = NodeLabel('A'), NodeLabel('B')
            S1 = EdgeLabel('S', [], is_nonterminal=True); S2 = EdgeLabel('T', [], is_nonterminal=True)
            g1, g2 = HRG(S1), HRG(S2)
            for g, S, nl, nid in ((g1, S1, A, 'v'), (g2, S2, B, 'w')):
                rhs = Graph(); v = Node(nl, nid); rhs.add_node(v)
                rhs.add_edge(Edge(EdgeLabel('f', [nl], is_terminal=True), [v], id='e' + nid)); g.add_rule(HRGRule(S, rhs))
        else:
            g1, g2 = make_pair(ctx.rng, **flags)
        case = dict(g1=enc_hrg(g1), g2=enc_hrg(g2), flags={k: v for k, v in flags.items() if v})
        # genuine conflict = same name, both terminal, different label
        conflict = any(g2.has_edge_label_name(l.name) and g2.get_edge_label(l.name) != l and l.is_terminal
                       and g2.get_edge_label(l.name).is_terminal for l in g1.edge_labels())
        try:
            conj = conjoin_hrgs(g1, g2)
            outcome = 'ok'
        except ValueError:
            conj, outcome = None, 'ValueError'
        except TypeError:
            conj, outcome = None, 'TypeError'
        pairs = [(r1, r2) for r1 in g1.all_rules() for r2 in g2.all_rules() if conjoinable_spec(r1, r2)]
        nontriv = any(any(e.label.is_nonterminal for e in r1.rhs.edges()) for r1, _ in pairs)
        ctx.case(case, (case['g1'], case['g2']) if nontriv else None, sample_every=300)
        ctx.count('outcome.' + outcome)
        ctx.count(f'conjoinable_pairs={min(len(pairs), 6)}')
        # ---- the property, directly
        tags = [f for f, v in flags.items() if v]
        if conflict and outcome != 'ValueError':
            ctx.fail('a genuine terminal-label conflict is not reported with ValueError', case, outcome, 'ValueError', tags=['conflict-missed'])
        if not conflict and outcome != 'ok':
            shared = any({e.id for e in r1.rhs.edges() if e.label.is_terminal} & {e.id for e in r2.rhs.edges() if e.label.is_terminal}
                         for r1, r2 in pairs)
            mixed = any(len({type(e.id) for e in r.rhs.edges() if e.label.is_nonterminal}) > 1 for r in g1.all_rules() + g2.all_rules())
            ctx.fail(f'conjoin_hrgs raises {outcome} although there is no terminal-label conflict', case, outcome, 'ok',
                     tags=['spurious-error', outcome] + (['shared-terminal-edge-id'] if shared else []) + (['mixed-id-types'] if mixed else []))
        nt_map = nonterminal_pairs(g1, g2)
        names = [l.name for l in nt_map.values()]
        existing = {l.name for l in g1.edge_labels()} | {l.name for l in g2.edge_labels()}
        ctx.evaluations += 1
        if len(set(names)) != len(names) or set(names) & existing:
            ctx.fail('paired nonterminal names are not unique / collide with an existing label', case, names, None, tags=['names'])
        if conj is not None:
            rules = conj.all_rules()
            # rule shape (all_rules groups by lhs; compare as multisets of (pair) -> rule)
            if len(rules) != len(pairs):
                ctx.fail('number of conjoined rules differs from the number of conjoinable pairs', case, len(rules), len(pairs), tags=['rule-count'])
            else:
                # reconstruct in conjoin order: pairs in (all_rules1 x all_rules2) order, then grouped by lhs
                built = {}
                for (r1, r2) in pairs:
                    built.setdefault(nt_map[r1.lhs, r2.lhs], []).append((r1, r2))
                flat = [p for l in built for p in built[l]]
                for (r1, r2), r in zip(flat, rules):
                    bad = shape_errors(nt_map, r1, r2, r)
                    for b in bad:
                        ctx.fail('conjoined rule: ' + b, case, None, None, tags=['rule-shape'])
            # derivation counts
            for d in (1, 2, 3):
                a = count_derivs(conj, conj.start, d, {})
                b = count_pairs(g1, g2, g1.start, g2.start, d, {})
                ctx.evaluations += 1
                if a != b:
                    ctx.fail(f'derivations of the conjunction to depth {d}: {a}, paired derivations: {b}', case, a, b, tags=['derivation-count'])
        reqs.append(f'C17.conjoin {enc_hrg(g1)} {enc_hrg(g2)}')
        meta.append((case, outcome, conj))
        if conj is not None:
            g1s[id(conj)], g2s[id(conj)] = g1, g2
    # the hypothesis of the derivation-correspondence theorem (C17b.conjoin_derivations_bijection): Cj.wfHRG must hold of
    # every grammar that can be built through the real API (Graph rejects duplicate edge ids)
    wf_reqs = [f'C17.wf {c["g1"]}' for c, _, _ in meta] + [f'C17.wf {c["g2"]}' for c, _, _ in meta]
    for i, rep in enumerate(ctx.driver.ask_many(wf_reqs)):
        if isinstance(rep, Exception): raise rep
        ctx.count('wfHRG.' + rep)
        if rep != 'T':
            ctx.disagree('Cj.wfHRG is false of a grammar built through the public API (hypothesis of the C17b theorems)', meta[i % len(meta)][0], 'built', rep)
    for (case, outcome, conj), rep in zip(meta, ctx.driver.ask_many(reqs)):
        if isinstance(rep, Exception): raise rep
        if rep in ('ValueError', 'TypeError'):
            if outcome != rep:
                ctx.disagree('Cj.conjoin outcome', case, outcome, rep)
            continue
        if outcome != 'ok':
            ctx.disagree('Cj.conjoin outcome', case, outcome, 'ok')
            continue
        known = {e.id for g in (g1s[id(conj)], g2s[id(conj)]) for r in g.all_rules() for e in r.rhs.edges()} | \
            {v.id for g in (g1s[id(conj)], g2s[id(conj)]) for r in g.all_rules() for v in r.rhs.nodes()}
        def fresh_as_new(tokens, is_new):
            out = []
            for a, b in zip(tokens, tokens[1:] + ['']):
                out.append(a)
            res, i = [], 0
            while i < len(tokens):
                if tokens[i] == 'int' and i + 1 < len(tokens) and is_new(int(tokens[i + 1])):
                    res += ['int', 'NEW']; i += 2
                else:
                    res.append(tokens[i]); i += 1
            return res
        impl = f'{enc_label(conj.start)} {enc_list(conj.all_rules(), enc_rule)}'
        # the model lists rules in pair order; all_rules() groups them by lhs: group the model's too
        t = fresh_as_new(rep[3:].split(), lambda n: n >= 1000000000)
        impl_t = fresh_as_new(impl.split(), lambda n: n not in known)
        if sorted(impl_t) != sorted(t) or impl_t[:3] != t[:3]:
            ctx.disagree('Cj.conjoin result', case, impl, rep[3:])
    run_unique(ctx)


def shape_errors(nt_map, r1, r2, r):
    bad = []
    if r.lhs != nt_map[r1.lhs, r2.lhs]: bad.append('lhs is not the pair label')
    if list(r.rhs.nodes()) != list(r1.rhs.nodes()) or r.rhs.ext != r1.rhs.ext: bad.append('nodes/externals differ from the pair')
    e2 = {e.id: e for e in r2.rhs.edges() if e.label.is_nonterminal}
    # an implicit-id edge is paired into an edge with a fresh implicit id
    idk = lambda i: i if isinstance(i, str) else 'fresh'
    want_nt = sorted((idk(e.id), str(nt_map[e.label, e2[e.id].label]), tuple(map(str, e.nodes))) for e in r1.rhs.edges() if e.label.is_nonterminal)
    got_nt = sorted((idk(e.id), str(e.label), tuple(map(str, e.nodes))) for e in r.rhs.edges() if e.label.is_nonterminal)
    if want_nt != got_nt: bad.append('nonterminal edges are not one per shared edge labelled by the pair')
    want_t = [e for e in r1.rhs.edges() if e.label.is_terminal] + [e for e in r2.rhs.edges() if e.label.is_terminal]
    got_t = [e for e in r.rhs.edges() if e.label.is_terminal]
    if sorted(map(str, want_t)) != sorted(map(str, got_t)): bad.append('terminal edges are not those of both rules')
    return bad


def run_unique(ctx):
    """unique_label_name against the model, on adversarial name sets"""
    from fggs.utils import unique_label_name
    reqs, meta = [], []
    pool = ['X', 'X_1', 'X_2', 'X_3', 'X_1_1', '<X,Y>', '<X,Y>_1', 'Y']
    for r in range(0, 5):
        for names in itertools.combinations(pool, r):
            for name in ('X', '<X,Y>', 'X_1'):
                labs = [EdgeLabel(n, [], is_terminal=True) for n in names]
                got = unique_label_name(name, labs)
                ctx.evaluations += 1
                if got in names:
                    ctx.fail('unique_label_name returned a name that is in use', dict(name=name, names=names), got, None, tags=['unique-name'])
                reqs.append(f'C17.unique {tok(name)} {enc_list(names, tok)}'); meta.append((name, names, got))
    for (name, names, got), rep in zip(meta, ctx.driver.ask_many(reqs)):
        if isinstance(rep, Exception): raise rep
        if untok(rep) != got:
            ctx.disagree('Cj.uniqueName vs unique_label_name', dict(name=name, names=names), got, untok(rep))


def replay(ctx, rep):
    run(ctx)
    return bool(ctx.failures or ctx.disagreements)
