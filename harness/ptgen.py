"""Typed generator of PatternedTensors (C06, C07, C13, C09, C18) and their encoding for `Ax.parsePT`.

An index type is  ('atom', n) | ('prod', [ty…]) | ('sum', [ty…]).  An axis inhabiting a type is built
so that operands over the same type list are well typed by construction: an atom is a PhysicalAxis
(unitAxis if n == 1); a product is the product of axes of its components; a sum embeds one component
(SumAxis) — or any type is covered densely by one PhysicalAxis of its numel."""
import math
import torch
from fggs.indices import PatternedTensor, PhysicalAxis, productAxis, unitAxis, SumAxis, ProductAxis
from .common import enc_ext, enc_list

SIZES = [1, 2, 3, 2, 4]


def ty_numel(ty):
    if ty[0] == 'atom':
        return ty[1]
    if ty[0] == 'prod':
        return math.prod(ty_numel(t) for t in ty[1])
    return sum(ty_numel(t) for t in ty[1])


def random_type(rng, depth=2, sizes=SIZES, p_unit_sum=0.0):
    """`p_unit_sum`: probability of a ONE-component sum over the unit type, `0 + () + 0`: an index type with one element whose
    inhabitant is not the unit axis (patterned JSON weights can spell it)"""
    if p_unit_sum and rng.random() < p_unit_sum:
        return ('sum', [('atom', 1)])
    c = rng.random()
    if depth == 0 or c < 0.5:
        return ('atom', rng.choice(sizes))
    k = rng.randint(2, 3) if c < 0.8 else 2
    kind = 'prod' if c < 0.8 else 'sum'
    return (kind, [random_type(rng, depth - 1, sizes, p_unit_sum) for _ in range(k)])


POOL_TY = {}      # id(PhysicalAxis) -> repr of the index type it was created for (axes in `pool` are alive, so ids are unique)


def axis_for(rng, ty, pool, p_dense=0.25, p_share=0.3):
    """an axis inhabiting `ty`; `pool` = list of PhysicalAxes created so far (for sharing)"""
    n = ty_numel(ty)
    if n == 1 and ty[0] == 'atom':
        return unitAxis
    if ty[0] == 'atom' or rng.random() < p_dense:
        if n == 1:
            return unitAxis
        # a physical axis is shared (diagonal) only between positions of the SAME index type: the library's typing
        # discipline (unification of a sum with a product of equal size is an "index type mismatch")
        cands = [k for k in pool if k._numel == n and POOL_TY.get(id(k)) == repr(ty)]
        if cands and rng.random() < p_share:
            return rng.choice(cands)
        k = PhysicalAxis(n)
        POOL_TY[id(k)] = repr(ty)
        if len(POOL_TY) > 100000:
            POOL_TY.clear()
        pool.append(k)
        return k
    if ty[0] == 'prod':
        return productAxis([axis_for(rng, t, pool, p_dense, p_share) for t in ty[1]])
    i = rng.randrange(len(ty[1]))
    before = sum(ty_numel(t) for t in ty[1][:i])
    after = sum(ty_numel(t) for t in ty[1][i + 1:])
    return SumAxis(before, axis_for(rng, ty[1][i], pool, p_dense, p_share), after)


VALUES = [0.0, 1.0, 2.0, -1.0, 3.0, 0.5]
DEFAULTS = [0.0, 0.0, 1.0, -math.inf, math.inf, 2.0]


def random_pt(rng, types, *, dtype=torch.float64, values=VALUES, defaults=DEFAULTS, specials=0.1, bool_=False,
              p_dense=0.25, p_share=0.3, max_phys=400, special_values=(math.inf, -math.inf, 0.0)):
    """a well-formed PatternedTensor whose virtual dimensions inhabit `types`"""
    for _ in range(50):
        pool = []
        vaxes = tuple(axis_for(rng, ty, pool, p_dense, p_share) for ty in types)
        # paxes: the free axes in order of first occurrence, shuffled
        seen, paxes = set(), []
        for e in vaxes:
            for k in e.fv({}):
                if id(k) not in seen:
                    seen.add(id(k)); paxes.append(k)
        rng.shuffle(paxes)
        if math.prod(k._numel for k in paxes) <= max_phys:
            break
    shape = [k._numel for k in paxes]
    numel = math.prod(shape)
    if bool_:
        data = [rng.random() < 0.5 for _ in range(numel)]
        phys = torch.tensor(data, dtype=torch.bool).reshape(shape)
        default = rng.random() < 0.3
    else:
        data = [rng.choice(values) if rng.random() > specials else rng.choice(list(special_values)) for _ in range(numel)]
        phys = torch.tensor(data, dtype=dtype).reshape(shape)
        default = rng.choice(defaults)
    return PatternedTensor(phys, tuple(paxes), vaxes, default)


def enc_axis(e, ids):
    if isinstance(e, PhysicalAxis):
        return f'P {ids.setdefault(id(e), len(ids))} {e._numel}'
    if isinstance(e, ProductAxis):
        return 'X ' + enc_list(e.factors, lambda f: enc_axis(f, ids))
    return f'S {e.before} {enc_axis(e.term, ids)} {e.after}'


def enc_pt(t):
    ids = {}
    pa = enc_list(t.paxes, lambda k: f'{ids.setdefault(id(k), len(ids))} {k._numel}')
    va = enc_list(t.vaxes, lambda e: enc_axis(e, ids))
    phys = t.physical.contiguous().reshape(-1).tolist() if t.physical.is_contiguous() else t.physical.clone().reshape(-1).tolist()
    return f'{enc_list(phys, enc_ext)} {pa} {va} {enc_ext(t.default)}'


def same_dense(a, b, rtol=0.0):
    """a, b dense torch tensors"""
    if a.shape != b.shape:
        return False
    if a.dtype == torch.bool or b.dtype == torch.bool:
        return bool((a.to(torch.bool) == b.to(torch.bool)).all()) if a.dtype == b.dtype else False
    a64, b64 = a.to(torch.float64), b.to(torch.float64)
    eq = (a64 == b64) | (torch.isnan(a64) & torch.isnan(b64))
    if rtol:
        eq = eq | ((a64 - b64).abs() <= rtol * torch.maximum(a64.abs(), b64.abs()).clamp_min(1e-30))
    return bool(eq.all())


def unit_family(rng):
    """Two representations (vaxis, paxes) of ONE index type that is a product of components among: an atom (a physical axis), a
    one-hot component of a two-component sum (`b + () + a`, a non-physical factor of 2 elements) and the one-element sum `(1)`, whose
    inhabitant `0 + () + 0` may be spelt out or be left out (the unit axis inhabits it too and vanishes from a product).  The two
    representations differ only in which one-element factors are spelt out: same type, same shape, overlapping patterns."""
    from fggs.indices import SumAxis, unitAxis, productAxis
    while True:
        comps = [rng.choice([('atom', 2), ('atom', 3), ('onehot', 0, 1), ('onehot', 1, 0), ('one',), ('one',)]) for _ in range(rng.randint(2, 4))]
        if any(c[0] == 'one' for c in comps) and any(c[0] != 'one' for c in comps):
            break
    hot = [rng.random() < 0.8 for _ in comps]      # the second representation sits in the same one-hot components most of the time
    def rep(keep, which):
        fac, pax = [], []
        for i, c in enumerate(comps):
            if c[0] == 'atom':
                k = PhysicalAxis(c[1]); pax.append(k); fac.append(k)
            elif c[0] == 'onehot':
                b, a = (c[1], c[2]) if (which == 0 or hot[i]) else (c[2], c[1])
                fac.append(SumAxis(b, unitAxis, a))
            elif keep[i]:
                fac.append(SumAxis(0, unitAxis, 0))
        return productAxis(fac), tuple(pax)
    k1 = [rng.random() < 0.5 for _ in comps]
    k2 = [rng.random() < 0.5 for _ in comps]
    if k1 == k2:
        j = rng.choice([i for i, c in enumerate(comps) if c[0] == 'one'])
        k2[j] = not k2[j]
    (e, pe), (f, pf) = rep(k1, 0), rep(k2, 1)
    return e, pe, f, pf
