"""C19 — scc and nonterminal_graph.  Contract check: the proved-sound Lean decider `sccOk` on every
output of fggs.utils.scc; drift check: the literal Tarjan model `Impl.scc` must return the very same
list (emission order is deterministic given insertion order).  Enumerated: all digraphs on <= 3
(quick) / <= 4 (thorough) vertices with self-loops in every vertex insertion order; random to 12."""
import itertools
import fggs
from fggs.utils import scc, nonterminal_graph
from . import gen
from .common import enc_list, Toks

RULE = ('all digraphs (self-loops allowed) on n<=3 vertices x all vertex insertion orders x 2 successor orders '
        '(thorough: n=4 x 2 insertion orders) + seeded random digraphs on 5..12 vertices + nonterminal graphs of '
        'random HRGs; non-trivial = has at least one edge between distinct vertices')
ASSUMPTIONS = ['Python recursion limit (deep chains) is not exhibited by the fuelled model',
               'the forall-theorem for the Tarjan model itself is not proved; the contract is decided per output by the proved-sound decider']


def enc_graph(order, adj):
    """order: list of vertices (insertion order); adj: dict v -> list of successors (insertion order)"""
    return enc_list(order, lambda v: f'{v} {enc_list(adj[v])}')


def check_graph(ctx, order, adj, batch):
    g = {v: {w: None for w in adj[v]} for v in order}
    comps = [list(c) for c in scc(g)]
    e = enc_graph(order, adj)
    batch.append((order, adj, comps, f'C19.scc {e}', f'C19.ok {e} {enc_list(comps, enc_list)}'))


def flush(ctx, batch):
    reqs = [x for b in batch for x in (b[3], b[4])]
    reps = ctx.driver.ask_many(reqs)
    for i, (order, adj, comps, _, _) in enumerate(batch):
        r1, r2 = reps[2 * i], reps[2 * i + 1]
        if isinstance(r1, Exception): raise r1
        if isinstance(r2, Exception): raise r2
        t = Toks(r1)
        model = t.list(lambda: t.list(t.nat))
        wf, ok = r2.split()
        case = dict(order=order, adj={str(k): v for k, v in adj.items()})
        nontriv = any(w != v for v in order for w in adj[v])
        ctx.case(dict(graph=case, scc=comps), (tuple(order), tuple((v, tuple(adj[v])) for v in order)) if nontriv else None,
                 sample_every=1009)
        ctx.count(f'n={len(order)}')
        ctx.count(f'ncomps={len(comps)}')
        py = f'from fggs.utils import scc; print(scc({ {v: {w: None for w in adj[v]} for v in order} !r}))'
        if wf != 'T':
            raise RuntimeError(f'generator produced an ill-formed graph {case}')
        if ok != 'T':
            ctx.fail('scc output is not the SCC partition in dependency order', case, comps, 'sccOk = false', python=py,
                     tags=['scc-contract'])
        elif model != comps:
            ctx.disagree('Impl.scc (Tarjan model) vs fggs.utils.scc', case, comps, model, python=py)
    batch.clear()


def all_digraphs(n):
    pairs = [(i, j) for i in range(n) for j in range(n)]
    for m in range(2 ** len(pairs)):
        adj = {i: [] for i in range(n)}
        for b, (i, j) in enumerate(pairs):
            if m >> b & 1:
                adj[i].append(j)
        yield adj


def run(ctx):
    batch = []
    for n in range(0, 4):
        for adj in all_digraphs(n):
            for order in itertools.permutations(range(n)):
                check_graph(ctx, list(order), adj, batch)
                check_graph(ctx, list(order), {v: list(reversed(ws)) for v, ws in adj.items()}, batch)
            if len(batch) > 2000: flush(ctx, batch)
    flush(ctx, batch)
    if not ctx.quick:
        for adj in all_digraphs(4):
            check_graph(ctx, [0, 1, 2, 3], adj, batch)
            order = [0, 1, 2, 3]; ctx.rng.shuffle(order)
            check_graph(ctx, order, {v: ctx.rng.sample(ws, len(ws)) for v, ws in adj.items()}, batch)
            if len(batch) > 2000: flush(ctx, batch)
        flush(ctx, batch)
    for _ in range(300 if ctx.quick else 5000):
        n = ctx.rng.randint(5, 12)
        p = ctx.rng.choice([0.05, 0.1, 0.2, 0.35])
        order = list(range(n)); ctx.rng.shuffle(order)
        adj = {v: [w for w in ctx.rng.sample(range(n), n) if ctx.rng.random() < p] for v in range(n)}
        check_graph(ctx, order, adj, batch)
    flush(ctx, batch)
    run_ntgraph(ctx)


def run_ntgraph(ctx):
    """nonterminal_graph: edge X->Y iff some rule for X has a rhs edge labelled Y; every nonterminal
    is a vertex; and sum_products gives every nonterminal a value."""
    reqs, meta = [], []
    for k in range(200 if ctx.quick else 3000):
        shape = gen.random_shape(ctx.rng, recursive=ctx.rng.random() < 0.6, n_nts=(1, 5), p_ruleless=0.25)
        hrg, info = gen.build_hrg(shape)
        if ctx.rng.random() < 0.4 and hrg.all_rules():
            # history: right-hand sides that once held an edge labelled with some nonterminal (since removed), or merely have its
            # label registered: the dependency graph is about the edges that are there now
            from fggs import Node, Edge
            for r in hrg.all_rules():
                if ctx.rng.random() < 0.5:
                    y = ctx.rng.choice(info['XL'])
                    try:
                        if ctx.rng.random() < 0.5:
                            e = Edge(y, [Node(nl) for nl in y.type])
                            r.rhs.add_edge(e)
                            r.rhs.remove_edge(e)
                        else:
                            r.rhs.add_edge_label(y)
                        ctx.count('ntgraph.stale-label')
                    except Exception:
                        pass
        g = nonterminal_graph(hrg)
        XL = info['XL']
        idx = {x: i for i, x in enumerate(XL)}
        impl = [(idx[x], [idx[y] for y in g[x]]) for x in g]
        # spec, directly
        want = {i: set() for i in range(len(XL))}
        for r in shape['rules']:
            for kind, j, _ in r['edges']:
                if kind == 'n':
                    want[r['lhs']].add(j)
        case = dict(shape=shape)
        ctx.case(case, ('nt', k, len(shape['rules'])) if any(want.values()) else None, sample_every=500)
        ctx.count('ntgraph')
        if {i: set(s) for i, s in impl} != want:
            ctx.fail('nonterminal_graph differs from its specification', case, impl, {k: sorted(v) for k, v in want.items()},
                     tags=['ntgraph'])
        # model: nonterminals in label-table order, rules in all_rules() order
        nts = [idx[x] for x in hrg.nonterminals()]
        rules = [(idx[r.lhs], [idx[e.label] for e in r.rhs.edges() if e.label.is_nonterminal]) for r in hrg.all_rules()]
        reqs.append(f'C19.ntgraph {enc_list(nts)} {enc_list(rules, lambda r: f"{r[0]} {enc_list(r[1])}")}')
        meta.append((case, impl))
        # the SCC list of this graph is a dependency order as well
        comps = scc(g)
        flat = [x for c in comps for x in c]
        pos = {x: i for i, c in enumerate(comps) for x in c}
        if sorted(map(idx.get, flat)) != list(range(len(XL))):
            ctx.fail('scc(nonterminal_graph) does not cover every nonterminal exactly once', case, [[idx[x] for x in c] for c in comps], None,
                     tags=['ntgraph-cover'])
        elif any(pos[y] > pos[x] for x in g for y in g[x]):
            ctx.fail('a nonterminal is scheduled before one it depends on', case, [[idx[x] for x in c] for c in comps], None,
                     tags=['ntgraph-order'])
    for (case, impl), rep in zip(meta, ctx.driver.ask_many(reqs)):
        if isinstance(rep, Exception): raise rep
        t = Toks(rep)
        model = t.list(lambda: (t.nat(), t.list(t.nat)))
        if model != impl:
            ctx.disagree('Impl.nonterminalGraph vs fggs.utils.nonterminal_graph', case, impl, model)


def replay(ctx, rep):
    inp = rep['input']
    if 'order' in inp:
        batch = []
        check_graph(ctx, inp['order'], {int(k): v for k, v in inp['adj'].items()}, batch)
        flush(ctx, batch)
    else:
        run(ctx)
    return bool(ctx.failures or ctx.disagreements)
