"""C19 — scc and nonterminal_graph.  Contract check: the proved-sound Lean decider `sccOk` on every
output of fggs.utils.scc; correspondence: the literal Tarjan model `Impl.scc` (proved correct for every graph, C19b.scc_ok)
must return the very same list (emission order is deterministic given insertion order).  Enumerated: all digraphs on <= 3
(quick) / <= 4 (thorough) vertices with self-loops in every vertex insertion order; random to 12."""
import itertools
import fggs
from fggs.utils import scc, nonterminal_graph
from . import gen
from .common import enc_list, Toks

RULE = ('all digraphs (self-loops allowed) on n<=3 vertices x all vertex insertion orders x 2 successor orders '
        '(thorough: n=4 x 2 insertion orders) + seeded random digraphs on 5..12 vertices + nonterminal graphs of '
        'random HRGs; vertices of five kinds in rotation (small ints, run-time strings, tuples, large ints, value-equal objects: EQUAL BUT '
        'DISTINCT objects at every occurrence); histories sum_products / edit the grammar (new rule-less nonterminal, new start symbol, '
        'new nonterminal edge in an existing right-hand side, new rule) / sum_products on the same object, compared with a freshly built '
        'grammar; non-trivial = has at least one edge between distinct vertices')
ASSUMPTIONS = ['Python recursion limit (deep chains) is not exhibited by the fuelled model',
               'the Tarjan model satisfies the contract for every graph (C19b.scc_ok); the library is tied to it by the exact comparison of the '
               'component lists and, independently, by the proved-sound decider sccOk on every output']


def enc_graph(order, adj):
    """order: list of vertices (insertion order); adj: dict v -> list of successors (insertion order)"""
    return enc_list(order, lambda v: f'{v} {enc_list(adj[v])}')


class V:
    """a hashable vertex compared by value: two V(3) are equal and distinct objects"""
    __slots__ = ('i',)
    def __init__(self, i): self.i = i
    def __eq__(self, o): return isinstance(o, V) and o.i == self.i
    def __hash__(self): return hash(('V', self.i))
    def __repr__(self): return f'V({self.i})'


# vertex kinds: small ints are shared objects; the others are EQUAL BUT DISTINCT objects at every occurrence (key of the
# adjacency mapping, key of every successor mapping), as the EdgeLabels of a grammar written with new_edge/new_rule are
WRAP = [
    (lambda i: i, lambda x: x),
    (lambda i: 'v' + str(i), lambda x: int(x[1:])),
    (lambda i: tuple([i, i]), lambda x: x[0]),
    (lambda i: 100000 + i, lambda x: x - 100000),
    (lambda i: V(i), lambda x: x.i),
]
_kind = [0]


def check_graph(ctx, order, adj, batch, kind=None):
    if kind is None:
        _kind[0] = (_kind[0] + 1) % len(WRAP)
        kind = _kind[0]
    wrap, unwrap = WRAP[kind]
    ctx.count(f'vertex-kind={kind}')
    g = {wrap(v): {wrap(w): None for w in adj[v]} for v in order}
    comps = [[unwrap(x) for x in c] for c in scc(g)]
    e = enc_graph(order, adj)
    batch.append((order, adj, comps, kind, f'C19.scc {e}', f'C19.ok {e} {enc_list(comps, enc_list)}'))


def flush(ctx, batch):
    reqs = [x for b in batch for x in (b[4], b[5])]
    reps = ctx.driver.ask_many(reqs)
    for i, (order, adj, comps, kind, _, _) in enumerate(batch):
        r1, r2 = reps[2 * i], reps[2 * i + 1]
        if isinstance(r1, Exception): raise r1
        if isinstance(r2, Exception): raise r2
        t = Toks(r1)
        model = t.list(lambda: t.list(t.nat))
        wf, ok = r2.split()
        case = dict(order=order, adj={str(k): v for k, v in adj.items()}, vertex_kind=kind)
        nontriv = any(w != v for v in order for w in adj[v])
        ctx.case(dict(graph=case, scc=comps), (tuple(order), tuple((v, tuple(adj[v])) for v in order)) if nontriv else None,
                 sample_every=1009)
        ctx.count(f'n={len(order)}')
        ctx.count(f'ncomps={len(comps)}')
        py = (f'from fggs.utils import scc; print(scc({ {v: {w: None for w in adj[v]} for v in order} !r}))'
              + (f'  # with vertices of kind {kind} (harness/c19.py WRAP): equal but distinct objects' if kind else ''))
        if wf != 'T':
            raise RuntimeError(f'generator produced an ill-formed graph {case}')
        if ok != 'T':
            ctx.fail('scc output is not the SCC partition in dependency order', case, comps, 'sccOk = false', python=py,
                     tags=['scc-contract'])
        elif model != comps:
            ctx.disagree('Impl.scc (Tarjan model) vs fggs.utils.scc', case, comps, model, python=py)
    batch.clear()


def all_digraphs(n):
    pairs = [(i, j) for i in range(n) for j in range(n)]
    for m in range(2 ** len(pairs)):
        adj = {i: [] for i in range(n)}
        for b, (i, j) in enumerate(pairs):
            if m >> b & 1:
                adj[i].append(j)
        yield adj


def run(ctx):
    batch = []
    for n in range(0, 4):
        for adj in all_digraphs(n):
            for order in itertools.permutations(range(n)):
                check_graph(ctx, list(order), adj, batch)
                check_graph(ctx, list(order), {v: list(reversed(ws)) for v, ws in adj.items()}, batch)
            if len(batch) > 2000: flush(ctx, batch)
    flush(ctx, batch)
    if not ctx.quick:
        for adj in all_digraphs(4):
            check_graph(ctx, [0, 1, 2, 3], adj, batch)
            order = [0, 1, 2, 3]; ctx.rng.shuffle(order)
            check_graph(ctx, order, {v: ctx.rng.sample(ws, len(ws)) for v, ws in adj.items()}, batch)
            if len(batch) > 2000: flush(ctx, batch)
        flush(ctx, batch)
    for _ in range(300 if ctx.quick else 5000):
        n = ctx.rng.randint(5, 12)
        p = ctx.rng.choice([0.05, 0.1, 0.2, 0.35])
        order = list(range(n)); ctx.rng.shuffle(order)
        adj = {v: [w for w in ctx.rng.sample(range(n), n) if ctx.rng.random() < p] for v in range(n)}
        check_graph(ctx, order, adj, batch)
    flush(ctx, batch)
    run_ntgraph(ctx)
    run_history(ctx)


def run_ntgraph(ctx):
    """nonterminal_graph: edge X->Y iff some rule for X has a rhs edge labelled Y; every nonterminal
    is a vertex; and sum_products gives every nonterminal a value."""
    reqs, meta = [], []
    for k in range(200 if ctx.quick else 3000):
        shape = gen.random_shape(ctx.rng, recursive=ctx.rng.random() < 0.6, n_nts=(1, 5), p_ruleless=0.25)
        hrg, info = gen.build_hrg(shape)
        if ctx.rng.random() < 0.4 and hrg.all_rules():
            # history: right-hand sides that once held an edge labelled with some nonterminal (since removed), or merely have its
            # label registered: the dependency graph is about the edges that are there now
            from fggs import Node, Edge
            for r in hrg.all_rules():
                if ctx.rng.random() < 0.5:
                    y = ctx.rng.choice(info['XL'])
                    try:
                        if ctx.rng.random() < 0.5:
                            e = Edge(y, [Node(nl) for nl in y.type])
                            r.rhs.add_edge(e)
                            r.rhs.remove_edge(e)
                        else:
                            r.rhs.add_edge_label(y)
                        ctx.count('ntgraph.stale-label')
                    except Exception:
                        pass
        g = nonterminal_graph(hrg)
        XL = info['XL']
        idx = {x: i for i, x in enumerate(XL)}
        impl = [(idx[x], [idx[y] for y in g[x]]) for x in g]
        # spec, directly
        want = {i: set() for i in range(len(XL))}
        for r in shape['rules']:
            for kind, j, _ in r['edges']:
                if kind == 'n':
                    want[r['lhs']].add(j)
        case = dict(shape=shape)
        ctx.case(case, ('nt', k, len(shape['rules'])) if any(want.values()) else None, sample_every=500)
        ctx.count('ntgraph')
        if {i: set(s) for i, s in impl} != want:
            ctx.fail('nonterminal_graph differs from its specification', case, impl, {k: sorted(v) for k, v in want.items()},
                     tags=['ntgraph'])
        # model: nonterminals in label-table order, rules in all_rules() order
        nts = [idx[x] for x in hrg.nonterminals()]
        rules = [(idx[r.lhs], [idx[e.label] for e in r.rhs.edges() if e.label.is_nonterminal]) for r in hrg.all_rules()]
        reqs.append(f'C19.ntgraph {enc_list(nts)} {enc_list(rules, lambda r: f"{r[0]} {enc_list(r[1])}")}')
        meta.append((case, impl))
        # the SCC list of this graph is a dependency order as well
        comps = scc(g)
        flat = [x for c in comps for x in c]
        pos = {x: i for i, c in enumerate(comps) for x in c}
        if sorted(map(idx.get, flat)) != list(range(len(XL))):
            ctx.fail('scc(nonterminal_graph) does not cover every nonterminal exactly once', case, [[idx[x] for x in c] for c in comps], None,
                     tags=['ntgraph-cover'])
        elif any(pos[y] > pos[x] for x in g for y in g[x]):
            ctx.fail('a nonterminal is scheduled before one it depends on', case, [[idx[x] for x in c] for c in comps], None,
                     tags=['ntgraph-order'])
    for (case, impl), rep in zip(meta, ctx.driver.ask_many(reqs)):
        if isinstance(rep, Exception): raise rep
        t = Toks(rep)
        model = t.list(lambda: (t.nat(), t.list(t.nat)))
        if model != impl:
            ctx.disagree('Impl.nonterminalGraph vs fggs.utils.nonterminal_graph', case, impl, model)


# ------------------------------------------------------------------ histories: compute, edit the grammar, compute again

def _apply_mut(shape, fgg, info, mut):
    """apply one edit both to the shape (from which a FRESH grammar is built) and to the LIVE grammar object"""
    from fggs import Node, Edge, EdgeLabel, HRGRule, Graph
    kind = mut[0]
    NL, XL, TL = info['NL'], info['XL'], info['TL']
    if kind in ('newnt', 'start'):
        ty = mut[1]
        shape['nts'].append(list(ty))
        el = EdgeLabel(gen.nt_name(len(XL)), [NL[l] for l in ty], is_nonterminal=True)
        XL.append(el)
        if kind == 'newnt':
            fgg.add_edge_label(el)
        else:
            shape['start'] = len(XL) - 1
            fgg.start = el
    elif kind == 'edge':
        _, ri, j = mut
        r = shape['rules'][ri]
        att = []
        live = info['rules'][ri]
        nodes = []
        for l in shape['nts'][j]:
            r['nodes'].append(l); att.append(len(r['nodes']) - 1)
            nd = Node(NL[l]); live['rule'].rhs.add_node(nd); live['nodes'][att[-1]] = nd; nodes.append(nd)
        r['edges'].append(('n', j, att))
        live['rule'].rhs.add_edge(Edge(XL[j], nodes))
    elif kind == 'rule':
        _, i, tis = mut          # a rule X_i -> (externals of X_i's type, attached to nothing) t.. (terminal edges on fresh nodes)
        ty = shape['nts'][i]
        r = dict(lhs=i, nodes=list(ty), ext=list(range(len(ty))), edges=[])
        rhs = Graph()
        nodes = {}
        for v, l in enumerate(ty):
            nodes[v] = Node(NL[l]); rhs.add_node(nodes[v])
        for ti in tis:
            att = []
            for l in shape['terms'][ti]:
                r['nodes'].append(l); v = len(r['nodes']) - 1; att.append(v)
                nodes[v] = Node(NL[l]); rhs.add_node(nodes[v])
            r['edges'].append(('t', ti, att))
            rhs.add_edge(Edge(TL[ti], [nodes[v] for v in att]))
        rhs.ext = [nodes[v] for v in r['ext']]
        rule = HRGRule(XL[i], rhs)
        shape['rules'].append(r)
        fgg.add_rule(rule)
        info['rules'].append(dict(index=len(shape['rules']) - 1, rule=rule, nodes=nodes, edges={}))


def _sp_by_name(fgg):
    import torch
    sp = fggs.sum_products(fgg, semiring=fggs.RealSemiring(dtype=torch.float64))
    return {el.name: v.to_dense().to(torch.float64) for el, v in sp.items() if el.is_nonterminal}


def history_case(ctx, shape0, muts):
    """sum_products, then each edit followed by sum_products on the SAME grammar object: after every step every nonterminal of the
    grammar has a value, equal to the one computed on a grammar freshly built from the edited description (the dependency order is
    that of the grammar as it is now, not as it was at the first call)"""
    import copy, torch
    shape = copy.deepcopy(shape0)
    case = dict(stream='history', shape=shape0, edits=[list(m) for m in muts])
    fgg, info = gen.build_fgg(copy.deepcopy(shape))
    ctx.case(case, ('history', repr(shape0), repr(muts)), sample_every=50)
    ctx.count('history')
    for step in range(len(muts) + 1):
        if step:
            _apply_mut(shape, fgg, info, muts[step - 1])
            ctx.count(f'history.{muts[step - 1][0]}')
        try:
            live = _sp_by_name(fgg)
        except Exception as ex:  # noqa
            ctx.fail(f'sum_products raised {type(ex).__name__} after the edits {muts[:step]}: {str(ex)[:80]}', case, repr(ex), None,
                     tags=['history', 'raises'])
            return
        fresh_fgg, _ = gen.build_fgg(copy.deepcopy(shape))
        fresh = _sp_by_name(fresh_fgg)
        want_names = {gen.nt_name(i) for i in range(len(shape['nts']))}
        if set(live) != want_names:
            ctx.fail(f'after the edits {muts[:step]} some nonterminal has no value', case, sorted(live), sorted(want_names),
                     tags=['history', 'no-value'])
            return
        for name in sorted(want_names):
            a, b = live[name], fresh[name]
            if a.shape != b.shape or not torch.allclose(a, b, rtol=1e-9, atol=1e-12, equal_nan=True):
                ctx.fail(f'after the edits {muts[:step]} the value of {name} differs from the one computed on a freshly built grammar',
                         case, a.tolist(), b.tolist(), tags=['history', 'stale-order'])
                return


def run_history(ctx):
    for k in range(40 if ctx.quick else 600):
        shape = gen.random_shape(ctx.rng, recursive=False, n_nts=(2, 4), p_ruleless=0.3, n_nodes=(0, 2), n_edges=(0, 3),
                                 weights=lambda r: r.choice([0.25, 0.5, 1.0, 2.0]), max_cells=300)
        muts = []
        nnts = len(shape['nts'])
        nrules = len(shape['rules'])
        ruleless = [i for i in range(nnts) if not any(r['lhs'] == i for r in shape['rules'])]
        for _ in range(ctx.rng.randint(1, 3)):
            c = ctx.rng.random()
            if c < 0.3:
                muts.append(('newnt', [ctx.rng.randrange(len(shape['nls'])) for _ in range(ctx.rng.randint(0, 2))])); nnts += 1
                ruleless.append(nnts - 1)
            elif c < 0.4:
                muts.append(('start', [])); nnts += 1; ruleless.append(nnts - 1)
            elif c < 0.75:
                # a new nonterminal edge in an existing right-hand side (rank order kept: X_i only uses X_j, j > i)
                cands = [(ri, j) for ri in range(nrules) for j in range(shape['rules'][ri]['lhs'] + 1, nnts)
                         if ri < len(shape['rules'])]
                if cands:
                    ri, j = ctx.rng.choice(cands)
                    muts.append(('edge', ri, j))
            elif ruleless:
                i = ctx.rng.choice(ruleless)
                muts.append(('rule', i, [ctx.rng.randrange(len(shape['terms'])) for _ in range(ctx.rng.randint(0, 2))]))
        if muts:
            history_case(ctx, shape, muts)


def replay(ctx, rep):
    inp = rep['input']
    if 'order' in inp:
        batch = []
        check_graph(ctx, inp['order'], {int(k): v for k, v in inp['adj'].items()}, batch, kind=inp.get('vertex_kind', 0))
        flush(ctx, batch)
    elif inp.get('stream') == 'history':
        sh = inp['shape']
        if isinstance(sh.get('weights'), dict):
            sh['weights'] = {int(k): v for k, v in sh['weights'].items()}
        history_case(ctx, sh, [tuple(m) for m in inp['edits']])
    else:
        run(ctx)
    return bool(ctx.failures or ctx.disagreements)
