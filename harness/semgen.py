"""Shared pieces of the L2 harnesses (C01, C02, C03, C04, C11, C12): running sum_product(s) on a
shape, encoding for `Sem.parseGrammar`, decoding `Val`s, comparing tensors exactly / in tolerance."""
import math, warnings
from fractions import Fraction
import torch
import fggs
from fggs.utils import scc, nonterminal_graph
from . import gen
from .common import enc_ext, enc_list, Toks, dec_ext

REAL_W = [0.0, 1.0, 2.0, 3.0, 0.5, 0.25, math.inf]
VIT_W = [-math.inf, 0.0, -1.0, -2.0, 1.0, 3.0, math.inf]


def semiring_of(name, dtype):
    return {'real': fggs.RealSemiring, 'log': fggs.LogSemiring, 'viterbi': fggs.ViterbiSemiring}[name](dtype=dtype) \
        if name != 'bool' else fggs.BoolSemiring()


def weight_map(name):
    """shape weights are stored on the 'real side'; map them to the semiring's representation"""
    if name == 'real':
        return None
    if name == 'log':
        return lambda x: math.log(x) if x > 0 else -math.inf
    if name == 'bool':
        return lambda x: x != 0
    return None


def build(shape, name, dtype=torch.float64, **kw):
    return gen.build_fgg(shape, dtype=dtype, semiring=name, weight_map=weight_map(name), **kw)


def order_of(fgg, info):
    """the SCC list the implementation uses, as nonterminal indices"""
    idx = {x: i for i, x in enumerate(info['XL'])}
    return [[idx[x] for x in comp] for comp in scc(nonterminal_graph(fgg))]


def enc_order(order):
    return enc_list(order, enc_list)


def parse_val(t: Toks, f=None):
    f = f or t.ext
    return t.list(lambda: t.opt(lambda: t.list(f)))


def dense_list(pt):
    d = pt.to_dense()
    return [x for x in d.reshape(-1).tolist()]


def exact_eq(impl, model, dtype):
    """impl: python float/bool; model: Fraction | special float | bool"""
    if isinstance(model, bool) or isinstance(impl, bool):
        return bool(impl) == bool(model)
    if isinstance(model, float):
        return (math.isnan(model) and math.isnan(impl)) or impl == model
    if math.isinf(impl) or math.isnan(impl):
        return False
    if Fraction(impl) == model:
        return True
    # not exactly representable in the dtype (or the sum was rounded): tolerance regime
    eps = 1e-5 if dtype == torch.float32 else 1e-12
    return abs(impl - float(model)) <= eps * max(abs(float(model)), 1e-30)


def close_log(impl_log, model_real, dtype):
    """Log-semiring value against the exact real-side model value"""
    if isinstance(model_real, float):
        return impl_log == (math.inf if model_real == math.inf else math.nan)
    if model_real == 0:
        return impl_log == -math.inf
    if math.isinf(impl_log) or math.isnan(impl_log):
        return False
    want = math.log(model_real)
    eps = 1e-4 if dtype == torch.float32 else 1e-9
    return abs(impl_log - want) <= eps * max(1.0, abs(want))


def val_matches(impl_list, model_list, name, dtype):
    if model_list is None:
        return all((x == 0 if name in ('real',) else x == -math.inf if name in ('log', 'viterbi') else not x) for x in impl_list)
    if len(impl_list) != len(model_list):
        return False
    if name == 'log':
        return all(close_log(a, b, dtype) for a, b in zip(impl_list, model_list))
    return all(exact_eq(a, b, dtype) for a, b in zip(impl_list, model_list))
