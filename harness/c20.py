"""C20 — domains, factors, bindings.  Correspondence with `Fggs.Interp` + direct evaluation of the
property (bijection, acceptance iff shape, apply = weight at numberized position, binding rules)."""
import itertools, math
import torch
import fggs
from fggs import FiniteDomain, RangeDomain, FiniteFactor, NodeLabel, EdgeLabel, FactorGraph, FGG
from fggs.indices import PatternedTensor, PhysicalAxis
from .common import enc_list, enc_ext, enc_bool, Toks, same_scalar

RULE = ('finite domains: every duplicate-free list of length 0..3 over a pool of mixed hashables (ints, strings, tuples, None) '
        'plus a malformed stream with Python-equal duplicates (1/True/1.0); range domains of size 0..4; factors: every weight '
        'shape of rank <= 3 over sizes 0..3 against every domain tuple of rank <= 3 over sizes 0..3, as nested list, Tensor and '
        'PatternedTensor; bindings: every sequence of <= 3 (quick) / 4 (thorough) add_domain/add_factor/add_edge_label calls over 2 node labels x 2 '
        'domains x 4 edge labels x 3 factors; non-trivial = domain of size >= 2 / factor of rank >= 1 / sequence with a rejected call')
ASSUMPTIONS = ['Python == / hash on domain values is abstracted as equality of integer codes assigned by the harness',
               'torch.tensor shape inference of nested lists is modelled by Nested.shape (ragged = rejected)']

POOL = [0, 1, 2, 'a', 'b', ('x', 1), None, 2.5]
DUPS = [1, True, 1.0, 0, False]


def code_of(values):
    """integer codes such that equal python values get equal codes"""
    codes, reps = {}, []
    def code(v):
        for i, r in enumerate(reps):
            if r == v and hash(r) == hash(v):
                return i
        reps.append(v)
        return len(reps) - 1
    return code


def enc_dom_finite(vals, code):
    return 'finite ' + enc_list([code(v) for v in vals])


def run(ctx):
    run_domains(ctx)
    run_factors(ctx)
    run_bindings(ctx)


def run_domains(ctx):
    reqs, meta = [], []
    lists = []
    for n in range(0, 4):
        for vs in itertools.permutations(POOL, n):
            lists.append((list(vs), False))
    if ctx.quick:
        lists = [l for l in lists if len(l[0]) < 3] + ctx.rng.sample([l for l in lists if len(l[0]) == 3], 150)
    for n in range(1, 4):
        for vs in itertools.product(DUPS, repeat=n):
            if len(set(vs)) < n:
                lists.append((list(vs), True))
    for li, (vals, malformed) in enumerate(lists):
        code = code_of(vals)
        # "a collection of values": lists, tuples, and one-shot iterables (generators, iterators, dict views) alike
        kind = li % 5
        d = FiniteDomain(vals if kind == 0 else tuple(vals) if kind == 1 else (v for v in vals) if kind == 2 else iter(vals) if kind == 3
                         else (dict.fromkeys(vals).keys() if len(set(vals)) == len(vals) else list(vals)))
        ctx.count(f'domain.built-from.{["list", "tuple", "generator", "iterator", "dict_keys"][kind]}')
        queries = POOL + DUPS
        [code(v) for v in vals]
        cq = [code(v) for v in queries]
        idxs = list(range(0, len(vals) + 2))
        reqs.append(f'C20.dom {enc_dom_finite(vals, code)} {enc_list(cq)} {enc_list(idxs)}')
        impl_q = []
        for v in queries:
            try:
                nb = d.numberize(v)
            except KeyError:
                nb = None
            impl_q.append((bool(d.contains(v)), nb))
        impl_i = []
        for i in idxs:
            try:
                impl_i.append(code(d.denumberize(i)))
            except IndexError:
                impl_i.append(None)
        meta.append(('finite', vals, malformed, d.size(), impl_q, impl_i))
        if not malformed:
            oracle_bijection(ctx, d, vals, repr(vals))
    for n in range(0, 5):
        d = RangeDomain(n)
        queries = list(range(-2, n + 3))
        idxs = list(range(0, n + 2))
        reqs.append(f'C20.dom range {n} {enc_list(queries)} {enc_list(idxs)}')
        meta.append(('range', n, False, d.size(), [(bool(d.contains(v)), d.numberize(v)) for v in queries],
                     [d.denumberize(i) for i in idxs]))
        oracle_bijection(ctx, d, list(range(n)), f'range({n})')
    for (kind, desc, malformed, size, impl_q, impl_i), rep in zip(meta, ctx.driver.ask_many(reqs)):
        if isinstance(rep, Exception): raise rep
        t = Toks(rep)
        msize = int(t.next())
        mq = t.list(lambda: (t.bool(), t.opt(lambda: int(t.next()))))
        mi = t.list(lambda: t.opt(lambda: int(t.next())))
        ctx.case(dict(kind=kind, values=repr(desc)), (kind, repr(desc)) if size >= 2 else None, sample_every=300)
        ctx.count(f'domain.{kind}' + ('.malformed' if malformed else ''))
        if (msize, mq, mi) != (size, impl_q, impl_i):
            ctx.disagree('Interp.Dom vs fggs.domains', dict(kind=kind, values=repr(desc)), (size, impl_q, impl_i), (msize, mq, mi))
    # equality is by content
    doms = [FiniteDomain([]), FiniteDomain([0]), FiniteDomain([0, 1]), FiniteDomain([1, 0]), FiniteDomain(['a']), RangeDomain(0),
            RangeDomain(1), RangeDomain(2), FiniteDomain([0, 1])]
    for a, b in itertools.product(doms, repeat=2):
        ctx.evaluations += 1
        want = type(a) == type(b) and (a.values == b.values if isinstance(a, FiniteDomain) else a.size() == b.size())
        if (a == b) != want or (a != b) == want:
            ctx.fail('domain equality is not by content', dict(a=a.to_json(), b=b.to_json()), a == b, want, tags=['domain-eq'])


def oracle_bijection(ctx, d, vals, desc):
    n = d.size()
    ok = n == len(vals)
    try:
        for i, v in enumerate(vals):
            ok = ok and d.numberize(v) == i and d.denumberize(i) == v and d.contains(v)
        nums = [d.numberize(v) for v in vals]
        ok = ok and sorted(nums) == list(range(n))
    except (KeyError, IndexError) as e:
        ctx.evaluations += 1
        ctx.fail(f'numberize/denumberize raised {type(e).__name__} for a value of the domain', dict(domain=desc), repr(e), list(range(n)),
                 tags=['domain-bijection', 'raises'])
        return
    ctx.evaluations += 1
    if not ok:
        ctx.fail('numberize/denumberize are not mutually inverse bijections onto 0..size-1', dict(domain=desc), nums, list(range(n)),
                 tags=['domain-bijection'])


def nested(shape, it):
    if not shape:
        return next(it)
    return [nested(shape[1:], it) for _ in range(shape[0])]


def enc_nested(x):
    if isinstance(x, list):
        return 'N ' + enc_list(x, enc_nested)
    return 'L ' + enc_ext(x)


def run_factors(ctx):
    sizes = [0, 1, 2, 3]
    shapes = [()] + [s for r in (1, 2, 3) for s in itertools.product(sizes, repeat=r)]
    if ctx.quick:
        shapes = [s for s in shapes if len(s) <= 2] + ctx.rng.sample([s for s in shapes if len(s) == 3], 12)
    reqs, meta = [], []
    for dsh in shapes:
        doms = [FiniteDomain([f'v{j}' for j in range(n)]) if k % 2 == 0 else RangeDomain(n) for k, n in enumerate(dsh)]
        for wsh in shapes:
            if len(wsh) > len(dsh) + 1 or (ctx.quick and wsh != dsh and ctx.rng.random() < 0.6):
                continue
            numel = math.prod(wsh)
            data = [float(i + 1) for i in range(numel)]
            if numel:
                data[-1] = math.inf
            t = torch.tensor(data, dtype=torch.float64).reshape(wsh)
            reps = {'tensor': t, 'nested': nested(list(wsh), iter(data)) if 0 not in wsh else None,
                    'patterned': PatternedTensor(t)}
            if len(wsh) == 2 and wsh[0] == wsh[1] and wsh[0] >= 2:
                k = PhysicalAxis(wsh[0])
                reps['diag'] = PatternedTensor(t.diagonal().clone(), (k,), (k, k), 7.0)
            if len(wsh) >= 2:
                # the same weights stored with permuted axes: virtual axes are a permutation of the physical ones
                perm = list(range(len(wsh))); ctx.rng.shuffle(perm)
                if perm == sorted(perm):
                    perm = perm[::-1]
                inv = [perm.index(i) for i in range(len(perm))]
                reps['permuted'] = PatternedTensor(t.permute(*perm).contiguous()).permute(inv)
                reps['transposed'] = PatternedTensor(t.transpose(0, -1).contiguous()).transpose(0, len(wsh) - 1)
            for rname, w in reps.items():
                if w is None:
                    continue
                try:
                    f = FiniteFactor(doms, w)
                    accepted = True
                except ValueError:
                    accepted = False
                want = tuple(wsh) == tuple(dsh)
                ctx.case(dict(domains=list(dsh), weights=list(wsh), rep=rname), (dsh, wsh, rname) if len(dsh) >= 1 else None,
                         sample_every=400)
                ctx.count(f'factor.{rname}.{"accept" if accepted else "reject"}')
                if accepted != want:
                    ctx.fail('FiniteFactor accepts exactly weights of shape = domain sizes: violated',
                             dict(domains=list(dsh), weights=list(wsh), rep=rname), accepted, want, tags=['factor-shape'])
                    continue
                if accepted:
                    dense = w.to_dense() if isinstance(w, PatternedTensor) else t
                    # apply(values) = weight at the numberized position; factor equality by domains and dense weights
                    for idx in itertools.product(*[range(n) for n in dsh]):
                        vals = [d.denumberize(i) for d, i in zip(doms, idx)]
                        ctx.evaluations += 1
                        try:
                            got = f.apply(vals).item()
                        except Exception as e:  # noqa
                            ctx.fail(f'apply(values) raised {type(e).__name__} for values of the domains',
                                     dict(domains=list(dsh), rep=rname, values=repr(vals)), repr(e), float(dense[idx].item()), tags=['factor-apply', 'raises'])
                            break
                        if not same_scalar(got, float(dense[idx].item())):
                            ctx.fail('apply(values) is not the weight at the numberized position',
                                     dict(domains=list(dsh), rep=rname, values=repr(vals)), got, float(dense[idx].item()), tags=['factor-apply'])
                    # re-assigning the weights: apply() and equality follow (no stale copy of the old weights)
                    if numel:
                        new_dense = dense.clone() + 10.0
                        f.weights = new_dense.clone() if rname != 'nested' else new_dense.tolist()
                        for idx in list(itertools.product(*[range(n) for n in dsh]))[:6]:
                            vals = [d.denumberize(i) for d, i in zip(doms, idx)]
                            got = f.apply(vals).item()
                            ctx.evaluations += 1
                            if not same_scalar(got, float(new_dense[idx].item())):
                                ctx.fail('after assigning new weights, apply(values) still returns the old weight',
                                         dict(domains=list(dsh), rep=rname, values=repr(vals)), got, float(new_dense[idx].item()), tags=['factor-apply', 'stale'])
                                break
                        f.weights = w if rname != 'nested' else w
                    f2 = FiniteFactor(list(doms), dense.clone())
                    ctx.evaluations += 1
                    if not (f == f2) or (f != f2):
                        ctx.fail('factor equality is not by domains and dense weights', dict(domains=list(dsh), rep=rname), False, True, tags=['factor-eq'])
                    # the same domains given as a tuple, a list, an iterator-free sequence: equal factors; and the factor does not alias
                    # the caller's list (mutating the list afterwards changes neither the factor's domains nor its arity)
                    caller_list = list(doms)
                    f_list, f_tuple = FiniteFactor(caller_list, dense.clone()), FiniteFactor(tuple(doms), dense.clone())
                    if not (f_list == f_tuple) or not (f_tuple == f_list) or (f_list != f_tuple):
                        ctx.fail('factors over equal domains given as a list and as a tuple compare unequal', dict(domains=list(dsh), rep=rname), False, True,
                                 tags=['factor-eq', 'list-vs-tuple'])
                    before_doms, before_arity = tuple(f_list.domains), f_list.arity
                    caller_list.append(caller_list[0] if caller_list else None)
                    if caller_list: caller_list.pop(0)
                    if tuple(f_list.domains) != before_doms or f_list.arity != before_arity:
                        ctx.fail('a FiniteFactor aliases the list of domains it was given: mutating the list changed the factor', dict(domains=list(dsh), rep=rname),
                                 [str(d) for d in f_list.domains], [str(d) for d in before_doms], tags=['factor-alias'])
                    if numel:
                        d3 = dense.clone().contiguous(); d3.view(-1)[0] = 123.0
                        f3 = FiniteFactor(list(doms), d3)
                        if f == f3:
                            ctx.fail('factors with different weights compare equal', dict(domains=list(dsh), rep=rname), True, False, tags=['factor-eq'])
            # model
            def denc(k, n):
                return f'finite {enc_list(range(n))}' if k % 2 == 0 else f'range {n}'
            qs = [list(idx) for idx in itertools.product(*[range(n) for n in dsh])][:20]
            reqs.append(f'C20.factor {enc_list(list(enumerate(dsh)), lambda p: denc(*p))} {enc_list(wsh)} {enc_list(data, enc_ext)} '
                        f'{enc_list(qs, enc_list)}')
            meta.append((dsh, wsh, data, qs))
    for (dsh, wsh, data, qs), rep in zip(meta, ctx.driver.ask_many(reqs)):
        if isinstance(rep, Exception): raise rep
        want = tuple(wsh) == tuple(dsh)
        if rep.startswith('accepted') != want:
            ctx.disagree('Interp.mkFactor acceptance', dict(domains=list(dsh), weights=list(wsh)), want, rep)
        elif want:
            t = Toks(rep[len('accepted '):])
            vals = t.list(lambda: t.opt(t.ext))
            tt = torch.tensor(data, dtype=torch.float64).reshape(wsh)
            for q, v in zip(qs, vals):
                if v is None or not same_scalar(float(tt[tuple(q)].item()), v):
                    ctx.disagree('Interp.Factor.apply', dict(domains=list(dsh), query=q), float(tt[tuple(q)].item()), repr(v))
    # nested-list shape inference incl. ragged lists
    rag = [[1.0, [2.0]], [[1.0, 2.0], [3.0]], [[1.0], [2.0, 3.0]], [[[1.0]], [[2.0], [3.0]]], [1.0, 2.0], [[1.0, 2.0], [3.0, 4.0]], [], [[]], 5.0]
    reqs = [f'C20.nested {enc_nested(x)}' for x in rag]
    for x, rep in zip(rag, ctx.driver.ask_many(reqs)):
        if isinstance(rep, Exception): raise rep
        try:
            sh = list(torch.tensor(x, dtype=torch.float64).shape)
        except (ValueError, TypeError):
            sh = None
        t = Toks(rep)
        msh = t.opt(lambda: t.list(t.nat))
        ctx.case(dict(nested=repr(x)), ('nested', repr(x)))
        if msh != sh:
            ctx.disagree('Nested.shape vs torch.tensor shape inference', repr(x), sh, msh)


def run_bindings(ctx):
    """every short sequence of binding calls over a small universe, on a FactorGraph and on an FGG"""
    NLs = [NodeLabel('A'), NodeLabel('B')]
    domsP = [lambda: FiniteDomain([0, 1]), lambda: RangeDomain(3)]
    dom_enc = ['finite 2 0 1', 'range 3']
    # edge labels: name, type, terminal
    ELs = [('p', (0,), True), ('p', (0, 1), True), ('q', (0, 1), True), ('n', (0,), False), ('r', (0, 0), True)]   # 'r': a node label twice
    facs = [(0,), (1,), (0, 1), (0, 0), (1, 0)]   # factor = tuple of domain choices
    ops = [('dom', a, d) for a in range(2) for d in range(2)] + \
          [('fac', e, f) for e in range(len(ELs)) for f in range(len(facs))] + \
          [('lab', e) for e in range(len(ELs))]
    L = 3 if ctx.quick else 4
    seqs = list(itertools.product(ops, repeat=L))
    if ctx.quick and len(seqs) > 2500:
        seqs = ctx.rng.sample(seqs, 2500)
    elif len(seqs) > 40000:
        seqs = ctx.rng.sample(seqs, 40000)
    name_code = {'p': 0, 'q': 1, 'n': 2, 'r': 3, 'S': 9}
    def enc_el(e):
        name, ty, term = ELs[e]
        return f'{name_code[name]} {enc_list(ty)} {enc_bool(term)}'
    def enc_op(op):
        if op[0] == 'dom':
            return f'dom {op[1]} {dom_enc[op[2]]}'
        if op[0] == 'fac':
            return f'fac {enc_el(op[1])} {enc_list(facs[op[2]], lambda d: dom_enc[d])}'
        return f'lab {enc_el(op[1])}'
    reqs, meta = [], []
    for seq in seqs:
        for host in ('FactorGraph', 'FGG'):
            g = FactorGraph() if host == 'FactorGraph' else FGG('S')
            obs = []
            for op in seq:
                before = observe(g)
                try:
                    if op[0] == 'dom':
                        g.add_domain(NLs[op[1]], domsP[op[2]]())
                    elif op[0] == 'fac':
                        name, ty, term = ELs[op[1]]
                        el = EdgeLabel(name, [NLs[i] for i in ty], is_terminal=term, is_nonterminal=not term)
                        ds = [domsP[d]() for d in facs[op[2]]]
                        shp = [d.size() for d in ds]
                        g.add_factor(el, FiniteFactor(ds, torch.zeros(shp)))
                    else:
                        name, ty, term = ELs[op[1]]
                        g.add_edge_label(EdgeLabel(name, [NLs[i] for i in ty], is_terminal=term, is_nonterminal=not term))
                    ok = True
                except ValueError:
                    ok = False
                after = observe(g)
                obs.append((ok, after))
                # property: a rejected binding leaves the object observably unchanged
                if not ok and after != before and not (op[0] == 'dom'):
                    ctx.fail('a rejected add_factor/add_edge_label changed the object', dict(host=host, ops=[list(o) for o in seq]),
                             after, before, tags=['binding-atomic', op[0]])
                if ok and op[0] == 'fac':
                    name, ty, term = ELs[op[1]]
                    legal = term and name not in before[3] and len(facs[op[2]]) == len(ty) and \
                        all(NLs[nl].name in before[2] and before[4][NLs[nl].name] == ['finite 2', 'range 3'][d] for nl, d in zip(ty, facs[op[2]]))
                    if not legal:
                        ctx.fail('add_factor accepted an illegal binding', dict(host=host, ops=[list(o) for o in seq]), 'accepted', 'ValueError',
                                 tags=['binding-accepts-illegal'])
            pre = 'lab 9 0 F ' if host == 'FGG' else ''
            n = len(seq) + (1 if host == 'FGG' else 0)
            reqs.append(f'C20.run {n} {pre}' + ' '.join(enc_op(o) for o in seq))
            meta.append((host, seq, obs))
    nl_code = {'A': 0, 'B': 1}
    for (host, seq, obs), rep in zip(meta, ctx.driver.ask_many(reqs)):
        if isinstance(rep, Exception): raise rep
        parts = rep.split(' | ')
        if host == 'FGG':
            parts = parts[1:]
        rejected = any(not ok for ok, _ in obs)
        ctx.case(dict(host=host, ops=[list(o) for o in seq]), (host, seq) if rejected else None, sample_every=2000)
        ctx.count('binding.' + ('with-rejection' if rejected else 'all-accepted'))
        for k, ((ok, after), part) in enumerate(zip(obs, parts)):
            t = Toks(part)
            mok = t.bool()
            mnl, mel, mdom, mfac = t.list(t.nat), t.list(t.nat), t.list(t.nat), t.list(t.nat)
            impl = (ok, [nl_code[x] for x in after[0]], [name_code[x] for x in after[1]], [nl_code[x] for x in after[2]],
                    [name_code[x] for x in after[3]])
            if impl != (mok, mnl, mel, mdom, mfac):
                ctx.disagree('Interp.step vs InterpretationMixin', dict(host=host, ops=[list(o) for o in seq], step=k), impl, (mok, mnl, mel, mdom, mfac))
                break
    # shape()
    g = FGG('S')
    g.add_domain(NLs[0], FiniteDomain([0, 1])); g.add_domain(NLs[1], RangeDomain(3))
    for ty in [(), (0,), (1, 0), (0, 0, 1)]:
        el = EdgeLabel('z' + str(len(ty)), [NLs[i] for i in ty], is_terminal=True)
        want = tuple([2, 3][i] for i in ty)
        ctx.evaluations += 1
        if tuple(g.shape(el)) != want:
            ctx.fail('shape() is not the tuple of domain sizes', dict(type=list(ty)), g.shape(el), want, tags=['shape'])
        rep = ctx.driver.ask(f'C20.shape 2 dom 0 finite 2 0 1 dom 1 range 3 {enc_list(ty)}')
        t = Toks(rep)
        if t.opt(lambda: t.list(t.nat)) != list(want):
            ctx.disagree('Interp.shapeOf', dict(type=list(ty)), want, rep)


def observe(g):
    return ([nl.name for nl in g.node_labels()], [el.name for el in g.edge_labels()], list(g.domains.keys()), list(g.factors.keys()),
            {k: (f'finite {len(d.values)}' if isinstance(d, FiniteDomain) else f'range {d.size()}') for k, d in g.domains.items()})


def replay(ctx, rep):
    run(ctx)
    return bool(ctx.failures or ctx.disagreements)
