"""C04 — viterbi.  For every start assignment with a finite best weight (Lean model: max-plus Kleene
iteration to stability = maximum over derivations), fggs.viterbi must return a derivation that the Lean
checker `checkDeriv` accepts as well formed and whose weight is that maximum; derive() of it must give a
factor graph and assignment of the same total log-weight."""
import math, sys, warnings
import torch
import fggs
from fggs import FGGDerivation
from . import gen, semgen
from .c02 import sccs_and_linearity
from .common import enc_ext, enc_list, Toks

RULE = ('recursive and non-recursive shapes with integer log-weights {-inf,0,-1,-2,-3} (ties and weight-one cycles occur), rules whose '
        'attached nodes are all external, nullary-only rules, rules with edgeless nodes, start arity 0..2; every start assignment with '
        'finite best weight; the tables viterbi built (hook) against the table-filling model Vt.viterbiTables: maxima and lhs pointers exactly, every '
        'rhs pointer an argmax; non-trivial = derivation with >= 2 rule instances')
ASSUMPTIONS = ['integer log-weights: max-plus arithmetic is exact; rounding for other weights is outside the model',
               'Python recursion limit: the model\'s checker uses fuel 64']

VIT_W = [-math.inf, 0.0, -1.0, -2.0, -3.0]


def gen_shape(rng):
    recursive = rng.random() < 0.5
    shape = gen.random_shape(rng, recursive=recursive, n_nts=(1, 4), rules_per_nt=(1, 3), n_nodes=(0, 3), n_edges=(0, 4),
                             max_arity=2, start_arity=(0, 2), dom_sizes=(1, 2, 3, 2), p_isolated=0.3, p_ruleless=0.2, p_rep_ext=0.08,
                             weights=lambda r: r.choice(VIT_W), max_cells=200)
    if rng.random() < 0.4:
        # a factor given as a PATTERNED tensor with a FINITE default (what json_to_fgg builds from a patterned weights specification):
        # every entry whose first index is 0 equals a finite log-weight d and is backed by nothing (vaxes 1 + k + 0, default d)
        cands = [i for i, ty in enumerate(shape['terms']) if ty and shape['nls'][ty[0]] >= 2]
        if cands:
            i = rng.choice(cands)
            d = rng.choice([-1.0, -2.0, 0.0, -3.0])
            rest = len(shape['weights'][i]) // shape['nls'][shape['terms'][i][0]]
            shape['weights'][i] = [d] * rest + shape['weights'][i][rest:]
            shape['_patterned'] = [[i, d]]
    return shape


def patternize(shape, fgg, info):
    """replace the weights of the factors listed in shape['_patterned'] by the equivalent patterned tensor (same dense tensor)"""
    from fggs.indices import PatternedTensor, PhysicalAxis, SumAxis
    for i, d in shape.get('_patterned', []):
        fac = fgg.factors[info['TL'][i].name]
        dense = fac.weights.to_dense()
        n = dense.shape[0]
        k = PhysicalAxis(n - 1)
        others = [PhysicalAxis(s_) for s_ in dense.shape[1:]]
        fac.weights = PatternedTensor(dense[1:].clone(), (k, *others), (SumAxis(1, k, 0), *others), d)
        assert torch.equal(fac.weights.to_dense(), dense)


def enc_deriv(d, shape, info):
    rule_idx = {id(ri['rule']): ri for ri in info['rules']}
    ri = rule_idx[id(d.rule)]
    sr = shape['rules'][ri['index']]
    nodes = ri['nodes']      # position -> Node
    asst = [d.asst.get(nodes[v], 10 ** 6) for v in range(len(sr['nodes']))]
    kids = []
    for ei, (kind, j, att) in enumerate(sr['edges']):
        if kind == 'n':
            e = ri['edges'][ei]
            if e not in d.children:
                kids.append(None)
            else:
                kids.append(enc_deriv(d.children[e], shape, info))
    extra = [e for e in d.children if e not in ri['edges'].values()]
    if any(k is None for k in kids) or extra:
        return None
    return f"{ri['index']} {enc_list(asst)} {enc_list(kids)}"


def count_instances(d):
    return 1 + sum(count_instances(c) for c in d.children.values())


def derive_weight(fgg, d):
    graph, asst = d.derive()
    w = 0.0
    for e in graph.edges():
        w += graph.factors[e.label.name].apply([graph.domains[v.label.name].denumberize(asst[v]) for v in e.nodes]).item()
    return w, set(asst.keys()) == set(graph.nodes())


def tables_stream(ctx, case, shape, fgg, info, a, enc, posneg, treqs, tmeta):
    """the back-pointer tables the implementation built (hook `viterbi._verif_tables`, FGGS_VERIF=1), handed to the model of the
    reconstruction phase: `Vt.reconstruct` must return exactly the derivation `viterbi` returned, `Vt.reconstructChecked` must accept
    it (the pointers are locally optimal at every visited rule instance), and `maximum` must be a fixed point of the equations"""
    from fggs.viterbi import viterbi as _v
    tb = getattr(_v, '_verif_tables', None)
    if tb is None:
        return
    mx, lp, rp = tb
    XL = info['XL']
    def enc_r(r):
        if r is None:
            return 'none'
        t = r.to_dense() if hasattr(r, 'to_dense') else r
        n = t.shape[-1]
        ncell = 1
        for q in t.shape[:-1]:
            ncell *= q
        return 'some ' + enc_list(t.reshape(ncell, n).tolist(), lambda row: enc_list([int(v) for v in row]))
    try:
        lhs = enc_list(XL, lambda X: enc_list(lp[X].reshape(-1).tolist()) if X in lp else '0')
        rhs = enc_list(XL, lambda X: enc_list(rp[X], enc_r) if X in rp else '0')
        xs = enc_list(XL, lambda X: ('some ' + enc_list(mx[X].to_dense().reshape(-1).tolist(), enc_ext)) if X in mx else 'none')
    except Exception as e:  # noqa
        ctx.count('tables.unencodable')
        return
    treqs.append(f'C04.reconstruct {gen.enc_shape(shape)} {xs} {lhs} {rhs} {enc_list(a)}')
    tmeta.append((case, enc, posneg))
    # the table-FILLING phase: the model `Vt.viterbiTables` (F_viterbi + the driver loop) must produce the implementation's maxima and
    # left-hand-side pointers exactly, and every right-hand-side pointer of the implementation must attain the maximum of its rule
    key = gen.enc_shape(shape)
    seen = ctx.extra.setdefault('_tables_seen', set())
    if key not in seen and not any(n_ == 0 for n_ in shape['nls']):
        seen.add(key)
        ctx.extra.setdefault('_tables_reqs', []).append(f'C04.tables {key} {lhs} {rhs} 1000')
        ctx.extra.setdefault('_tables_meta', []).append((dict(shape=shape, stream='table-filling'), xs, posneg))


def run(ctx):
    n = 160 if ctx.quick else 1500
    reqs, meta = [], []
    treqs, tmeta = [], []
    for k in range(n):
        shape = gen_shape(ctx.rng)
        if k == 0:
            # corpus: minimal input of the recorded finding D7 (S -> S | a with a weight-one tie)
            shape = dict(nls=[1], terms=[[0]], nts=[[]], start=0,
                         rules=[dict(lhs=0, nodes=[], ext=[], edges=[('n', 0, [])]), dict(lhs=0, nodes=[0], ext=[], edges=[('t', 0, [0])])],
                         weights={0: [0.0]})
        if k == 1:
            # corpus: minimal input of the recorded finding D14b (root rule with a repeated external node)
            shape = dict(nls=[2], terms=[[0, 0]], nts=[[0, 0]], start=0,
                         rules=[dict(lhs=0, nodes=[0], ext=[0, 0], edges=[('t', 0, [0, 0])])], weights={0: [0.0, -1.0, -2.0, -1.0]})
        if k == 2:
            # corpus: minimal input of the recorded finding D35 (+inf log-weight meeting a -inf one: the product is the
            # semiring zero, but torch_semiring_einsum's log-viterbi adds them to NaN, which then wins the argmax)
            shape = dict(nls=[2], terms=[[0], [0]], nts=[[]], start=0,
                         rules=[dict(lhs=0, nodes=[0], ext=[], edges=[('t', 1, [0]), ('t', 0, [0])])], weights={0: [3.0, math.inf], 1: [0.0, -math.inf]})
        elif k % 25 == 3:
            shape['weights'] = {i: [math.inf if ctx.rng.random() < 0.15 else x for x in w] for i, w in shape['weights'].items()}
            shape.pop('_patterned', None)
        posneg = any(x == math.inf for w in shape['weights'].values() for x in w) and any(x == -math.inf for w in shape['weights'].values() for x in w)
        rec, lin = sccs_and_linearity(shape)
        rep = ctx.driver.ask(f'C02.iterate viterbi {gen.enc_shape(shape)} 200')
        t = Toks(rep)
        stable = t.bool(); t.nat()
        best = semgen.parse_val(t)
        if not stable:
            continue
        fgg, info = semgen.build(shape, 'viterbi', torch.float64, ids='implicit')
        patternize(shape, fgg, info)
        if shape.get('_patterned'):
            ctx.count('patterned-factor-with-finite-default')
        start_ty = shape['nts'][shape['start']]
        sizes = [shape['nls'][l] for l in start_ty]
        import itertools
        bstart = best[shape['start']]
        for ai, a in enumerate(itertools.product(*[range(s) for s in sizes])):
            b = bstart[ai] if bstart is not None else -math.inf
            case = dict(shape=shape, start_asst=list(a))
            if isinstance(b, float):
                continue          # no derivation (-inf) or unbounded: outside the property
            ctx.count('recursive' if rec else 'nonrecursive')
            try:
                old = sys.getrecursionlimit()
                sys.setrecursionlimit(400)
                try:
                    with warnings.catch_warnings():
                        warnings.simplefilter('ignore')
                        d = fggs.viterbi(fgg, tuple(a), semiring=fggs.ViterbiSemiring(dtype=torch.float64))
                finally:
                    sys.setrecursionlimit(old)
            except RecursionError:
                tags = ['RecursionError'] + (['recursive-grammar'] if rec else []) + \
                    (['has-weight-one'] if any(all(k == 'n' or 0.0 in shape['weights'][j] for k, j, _ in r['edges'])
                                               for r in shape['rules'] if any(k == 'n' for k, _, _ in r['edges'])) else [])
                ctx.case(case, None)
                ctx.fail('viterbi does not terminate (RecursionError in reconstruct) although the maximum is finite and attained', case,
                         'RecursionError', str(b), tags=tags)
                continue
            except Exception as e:  # noqa
                ctx.case(case, None)
                ctx.fail(f'viterbi raised {type(e).__name__}: {e}', case, repr(e), str(b), tags=['raises', type(e).__name__])
                continue
            ninst = count_instances(d)
            ctx.case(case, (repr(shape), a) if ninst >= 2 else None, sample_every=40)
            enc = enc_deriv(d, shape, info)
            if enc is not None:
                tables_stream(ctx, case, shape, fgg, info, a, enc, posneg, treqs, tmeta)
            if enc is None:
                ctx.fail('viterbi: a rule instance does not have exactly one child per nonterminal edge', case, None, None, tags=['children'])
                continue
            reqs.append(f'C04.check {gen.enc_shape(shape)} {enc} {enc_list(a)}')
            try:
                w, total = derive_weight(fgg, d)
            except Exception as e:  # noqa
                w, total = repr(e), False
            root_rep = len(set(d.rule.rhs.ext)) < len(d.rule.rhs.ext)
            meta.append((case, b, w, total, root_rep, posneg))
    for (case, enc, posneg), rep in zip(tmeta, ctx.driver.ask_many(treqs)):
        if isinstance(rep, Exception): raise rep
        toks = rep.split()
        fixed, chk, md = toks[-1], toks[-2], ' '.join(toks[:-2])
        if md.startswith('some '):
            md = md[5:]
        ctx.evaluations += 1
        ctx.count('tables.' + ('checked' if chk == 'T' else 'unchecked'))
        if md != enc:
            ctx.disagree('Vt.reconstruct (model of the reconstruction phase, run on the implementation\'s tables) vs the derivation viterbi returned',
                         case, enc, md)
        elif chk != 'T':
            ctx.fail('viterbi: the back-pointers followed by the reconstruction are not locally optimal (the product of the rule\'s edge weights at '
                     'the pointed-to assignment is not the tabulated maximum)', case, enc, None,
                     tags=['pointers-not-optimal'] + (['posinf-meets-neginf'] if posneg else []))
        if fixed != 'T':
            ctx.fail('viterbi: the tabulated maxima are not a fixed point of the max-plus equations', case, None, None,
                     tags=['maximum-not-fixed'] + (['posinf-meets-neginf'] if posneg else []))
    ctx.extra.pop('_tables_seen', None)
    for (case, xs, posneg), rep in zip(ctx.extra.pop('_tables_meta', []), ctx.driver.ask_many(ctx.extra.pop('_tables_reqs', []))):
        if isinstance(rep, Exception): raise rep
        toks = rep.split()
        conv, lhs_eq, rhs_ok = toks[-3], toks[-2], toks[-1]
        mval = ' '.join(toks[:-3])
        ctx.evaluations += 1
        ctx.count('table-filling.' + ('converged' if conv == 'T' else 'not-converged'))
        if posneg:
            continue          # D35: +inf meets -inf (recorded finding, seen through the other streams)
        if conv != 'T':
            ctx.disagree('Vt.viterbiTables: the model\'s fixed-point loop does not converge on a grammar whose Kleene iteration is stable', case, 'T', conv)
            continue
        if mval.split() != xs.split():
            ctx.disagree('Vt.viterbiTables: maxima (model of F_viterbi + driver loop) vs the implementation\'s table `maximum`', case, xs, mval)
        if lhs_eq != 'T':
            ctx.disagree('Vt.viterbiTables: left-hand-side pointers (first rule that is strictly better) vs the implementation\'s lhs_pointer', case, 'T', lhs_eq)
        if rhs_ok != 'T':
            ctx.fail('viterbi: a right-hand-side pointer of the tables does not attain the maximum of its rule (wrong length, a value outside its '
                     'domain, or a non-maximal assignment)', case, None, None, tags=['rhs-pointer-not-argmax'])
    for (case, b, w, total, root_rep, posneg), rep in zip(meta, ctx.driver.ask_many(reqs)):
        if isinstance(rep, Exception): raise rep
        if rep == 'none':
            ctx.fail('viterbi returned an ill-formed derivation (rule of the wrong nonterminal, node value outside its domain, '
                     'external nodes disagreeing with the parent, or wrong children)', case, rep, str(b), tags=['ill-formed'])
            continue
        got = rep.split()[1]
        if got != str(b):
            ctx.fail(f'the derivation returned by viterbi has log-weight {got}, the maximum is {b}', case, got, str(b),
                     tags=['not-maximal'] + (['posinf-meets-neginf'] if posneg else []))
        ctx.evaluations += 1
        if not total or not isinstance(w, float) or w != float(b):
            tags = ['derive-weight'] + (['posinf-meets-neginf'] if posneg and not (isinstance(w, float) and w == w) else [])
            if isinstance(w, float) and w == float(b) and not total and root_rep:
                # the weight is right; only the start edge's attachment nodes of a REPEATED external node stay unassigned (D14 seen through derive())
                tags = ['derive-not-total', 'root-repeated-ext']
            ctx.fail(f'derive() of the viterbi derivation: total log-weight {w} (assignment total: {total}), maximum {b}', case, w, str(b),
                     tags=tags)
    # the patterned Viterbi einsum that fills the tables (model Ve.vitEinsum, theorems C04.vitEinsum_out / vitEinsum_ptrOk)
    from .c07 import run_viteinsum_model
    run_viteinsum_model(ctx, 60 if ctx.quick else 1200)
    run_maskedfill(ctx, 150 if ctx.quick else 3000)


def run_maskedfill(ctx, n):
    """`PatternedTensor.masked_fill_into(dest, value)` — how F_viterbi records the index of the best rule — against its model
    `Mf.maskedFillInto` (the strided view of dest at the cells the mask's pattern covers; the fill-everything-then-restore path
    when the mask's default is True) and against its specification: dest becomes `where(mask.to_dense(), value, dest)`"""
    import torch
    from . import ptgen
    from .common import enc_list, enc_ext
    reqs, meta = [], []
    for k in range(n):
        nd = ctx.rng.choice([0, 1, 1, 2, 2, 3])
        types = [ptgen.random_type(ctx.rng, depth=ctx.rng.choice([1, 2])) for _ in range(nd)]
        if nd >= 2 and ctx.rng.random() < 0.4:
            i, j = ctx.rng.sample(range(nd), 2); types[j] = types[i]
        if math.prod(ptgen.ty_numel(t) for t in types) > 300:
            continue
        mask = ptgen.random_pt(ctx.rng, types, bool_=True, p_share=0.5)
        shape = [ptgen.ty_numel(t) for t in types]
        dest = torch.tensor([ctx.rng.randint(0, 5) for _ in range(math.prod(shape))], dtype=torch.int32).reshape(shape)
        value = ctx.rng.randint(6, 9)
        before = dest.clone()
        case = dict(stream='masked_fill_into', mask=ptgen.enc_pt(mask), dest=before.reshape(-1).tolist(), value=value)
        ctx.case(case, ('maskedfill', case['mask'], tuple(case['dest'])) if mask.physical.numel() != math.prod(shape) else None, sample_every=100)
        ctx.count('maskedfill.default-' + str(bool(mask.default)))
        ctx.evaluations += 1
        try:
            mask.masked_fill_into(dest, value)
        except Exception as ex:  # noqa
            ctx.fail(f'masked_fill_into raised {type(ex).__name__}: {str(ex)[:80]}', case, repr(ex), None, tags=['maskedfill', 'raises'])
            continue
        want = torch.where(mask.to_dense(), torch.tensor(value, dtype=torch.int32), before)
        if not torch.equal(dest, want):
            ctx.fail('masked_fill_into: dest is not where(mask, value, dest)', case, dest.reshape(-1).tolist(), want.reshape(-1).tolist(),
                     tags=['maskedfill', 'value'])
            continue
        reqs.append(f"C04.maskedfill {ptgen.enc_pt(mask)} {enc_list(before.reshape(-1).tolist(), lambda x: str(int(x)))} {value}")
        meta.append((case, dest.reshape(-1).tolist()))
    for (case, got), rep in zip(meta, ctx.driver.ask_many(reqs)):
        if isinstance(rep, Exception): raise rep
        toks = rep.split()
        if toks[0] != 'some':
            ctx.disagree('Mf.maskedFillInto: the model reports the ValueError of project, the library returned', case, got, rep)
            continue
        L = int(toks[1]); model = [int(float(x)) for x in toks[2:2 + L]]
        if model != got:
            ctx.disagree('Mf.maskedFillInto (model of masked_fill_into) vs the library', case, got, model)
        elif toks[2 + L] != 'T':
            ctx.disagree('Mf.maskedFillInto differs from Mf.spec (theorem C04.maskedFillInto_spec would be contradicted)', case, got, rep[-20:])
        elif toks[3 + L] != 'T':
            ctx.disagree('the mask is not well formed (PT.wf): theorem C04.maskedFillInto_spec does not cover it', case, None, rep[-20:])


def replay(ctx, rep):
    run(ctx)
    return bool(ctx.failures or ctx.disagreements)
