"""C14 — JSON round trip.  Rule-level correspondence with `Fggs.J.toJson/fromJson` (exact), the
round-trip property evaluated directly on whole grammars (isomorphism by the sorted-position
permutation, explicit ids, label tables, domains, dense weights, sum_product), idempotence with
explicit ids, patterned weight specifications against an independent evaluator, and rejection of
out-of-range / negative node numbers."""
import itertools, json, math
import torch
import fggs
from fggs import formats, FiniteFactor
from fggs.indices import PatternedTensor
from . import gen
from .common import enc_list, enc_bool, Toks

RULE = ('random HRG/FGG shapes built with implicit, explicit and mixed ids (explicit ids include numeric-looking strings that sort '
        'differently as strings), finite and range domains, dense and patterned weights incl. inf, arity-0 and arity-k start; '
        'malformed stream: every attachment/external number replaced by -1, -len, len, len+1; patterned weight specs over a small '
        'grammar of vaxes; non-trivial = grammar with >= 2 rules or a rule with >= 3 nodes')
ASSUMPTIONS = ["CPython's json module is trusted (dumps/loads round trip of the produced object is exercised, not modelled)"]

NUMERIC_IDS = ['10', '9', '100', '1', '02', 'a', 'B', '_', 'aa', 'Z9', '', '0', ' ', 'None', 'false']   # incl. falsy and odd strings


def tok(s):
    """strings as single tokens"""
    return 's' + ''.join(f'{ord(c):02x}' for c in s) if s != '' else 's'


def untok(t):
    return bytes.fromhex(t[1:]).decode('latin1') if len(t) > 1 else ''


def enc_rule(rule):
    nodes = list(rule.rhs.nodes())
    pos = {v: i for i, v in enumerate(nodes)}
    return (f'{tok(rule.lhs.name)} ' +
            enc_list(nodes, lambda v: f'{tok(v.label.name)} {tok(str(v.id))} {enc_bool(v.persist_id)}') + ' ' +
            enc_list(rule.rhs.edges(), lambda e: f'{tok(e.label.name)} {enc_list([pos[v] for v in e.nodes])} {tok(str(e.id))} {enc_bool(e.persist_id)}') + ' ' +
            enc_list([pos[v] for v in rule.rhs.ext]))


def enc_jrule(jr):
    def oid(d):
        return 'some ' + tok(d['id']) if 'id' in d else 'none'
    return (f"{tok(jr['lhs'])} " + enc_list(jr['rhs']['nodes'], lambda n: f"{tok(n['label'])} {oid(n)}") + ' ' +
            enc_list(jr['rhs']['edges'], lambda e: f"{enc_list(e['attachments'])} {tok(e['label'])} {oid(e)}") + ' ' +
            enc_list(jr['rhs'].get('externals', [])))


def parse_jrule(rep):
    t = Toks(rep)
    lhs = untok(t.next())
    def node():
        d = {'label': untok(t.next())}
        i = t.opt(lambda: untok(t.next()))
        if i is not None: d['id'] = i
        return d
    nodes = t.list(node)
    def edge():
        att = t.list(lambda: int(t.next()))
        d = {'attachments': att, 'label': untok(t.next())}
        i = t.opt(lambda: untok(t.next()))
        if i is not None: d['id'] = i
        return d
    edges = t.list(edge)
    ext = t.list(lambda: int(t.next()))
    return {'lhs': lhs, 'rhs': {'nodes': nodes, 'edges': edges, 'externals': ext}}


def build(ctx, shape, ids):
    """build an HRG with ids of the requested style; explicit ids drawn from a pool with numeric-looking strings"""
    hrg, info = gen.build_hrg(shape, ids='implicit')
    if ids == 'implicit':
        return hrg
    # rebuild with explicit/mixed ids drawn from the pool
    from fggs import Node, Edge, Graph, HRG, HRGRule
    g2 = HRG(hrg.start)
    g2._verif_requested = []      # per rule: the explicit ids the harness ASKED for (sorted node ids, sorted edge ids)
    for r in hrg.all_rules():
        pool = NUMERIC_IDS[:]
        ctx.rng.shuffle(pool)
        rhs = Graph()
        m = {}
        req_nodes, req_edges = [], []
        for v in r.rhs.nodes():
            explicit = ids == 'explicit' or ctx.rng.random() < 0.5
            want_id = pool.pop() if explicit and pool else None
            m[v] = Node(v.label, id=want_id)
            if want_id is not None: req_nodes.append(want_id)
            rhs.add_node(m[v])
        pool2 = NUMERIC_IDS[:]
        ctx.rng.shuffle(pool2)
        for e in r.rhs.edges():
            explicit = ids == 'explicit' or ctx.rng.random() < 0.5
            want_id = pool2.pop() if explicit and pool2 else None
            if want_id is not None: req_edges.append(want_id)
            rhs.add_edge(Edge(e.label, [m[v] for v in e.nodes], id=want_id))
        rhs.ext = [m[v] for v in r.rhs.ext]
        g2.add_rule(HRGRule(r.lhs, rhs))
        g2._verif_requested.append((r.lhs.name, sorted(req_nodes), sorted(req_edges)))
    for el in hrg.edge_labels():
        g2.add_edge_label(el)
    for nl in hrg.node_labels():
        g2.add_node_label(nl)
    return g2


def rules_iso(r1, r2):
    """r2 (reloaded) is r1 with nodes/edges in str(id)-sorted order: labels, explicit ids, attachments, externals"""
    n1 = sorted(r1.rhs.nodes(), key=lambda v: str(v.id))
    n2 = list(r2.rhs.nodes())
    if r1.lhs != r2.lhs or len(n1) != len(n2):
        return 'lhs or node count'
    m = dict(zip(n1, n2))
    for a, b in zip(n1, n2):
        if a.label != b.label or a.persist_id != b.persist_id or (a.persist_id and a.id != b.id):
            return 'node label / explicit id'
    e1 = sorted(r1.rhs.edges(), key=lambda e: str(e.id))
    e2 = list(r2.rhs.edges())
    if len(e1) != len(e2):
        return 'edge count'
    for a, b in zip(e1, e2):
        if a.label != b.label or tuple(m[v] for v in a.nodes) != b.nodes or a.persist_id != b.persist_id or (a.persist_id and a.id != b.id):
            return 'edge label / attachments / explicit id'
    if tuple(m[v] for v in r1.rhs.ext) != tuple(r2.rhs.ext):
        return 'externals'
    return None


def run(ctx):
    n = 150 if ctx.quick else 2500
    reqs, meta = [], []
    for k in range(n):
        ids = ctx.rng.choice(['implicit', 'explicit', 'mixed'])
        shape = gen.random_shape(ctx.rng, recursive=ctx.rng.random() < 0.5, n_nts=(1, 4), rules_per_nt=(0, 3), start_arity=(0, 2),
                                 p_rep_ext=0.1, n_nodes=(0, 5))
        hrg = build(ctx, shape, ids)
        j = formats.hrg_to_json(hrg)
        try:
            s = json.dumps(j)
        except (TypeError, ValueError) as e:
            ctx.fail('hrg_to_json produced an object json.dumps rejects', dict(shape=shape), repr(e), None, tags=['dumps'])
            continue
        j1 = json.loads(s)
        rules = hrg.all_rules()
        nontriv = len(rules) >= 2 or any(len(list(r.rhs.nodes())) >= 3 for r in rules)
        ctx.case(dict(ids=ids, json=j1), (ids, s) if nontriv else None, sample_every=200)
        ctx.count(f'ids.{ids}')
        # ---- explicit ids are preserved: the ids the harness asked for (incl. the empty string and other falsy-looking strings) are
        # exactly the ids written out, rule by rule (all_rules() groups the rules by left-hand side, so match by lhs and id multiset)
        if getattr(hrg, '_verif_requested', None) is not None:
            want_ids = sorted((l, tuple(ns), tuple(es)) for l, ns, es in hrg._verif_requested)
            got_ids = sorted((jr['lhs'], tuple(sorted(x['id'] for x in jr['rhs']['nodes'] if 'id' in x)),
                              tuple(sorted(x['id'] for x in jr['rhs']['edges'] if 'id' in x))) for jr in j1['rules'])
            if want_ids != got_ids:
                ctx.fail('hrg_to_json does not write out exactly the explicit ids the nodes and edges were created with', dict(ids=ids, json=j1),
                         got_ids, want_ids, tags=['roundtrip', 'explicit-ids-written'])
        # ---- (a) rule-level correspondence: toJson
        for r, jr in zip(rules, j1['rules']):
            reqs.append(f'C14.toJson {enc_rule(r)}'); meta.append(('to', r, jr, shape))
        # ---- (c) the property on the whole grammar
        h2 = formats.json_to_hrg(j1)
        bad = []
        if h2.start != hrg.start: bad.append('start')
        # the HRG JSON format has no node-label table: node labels survive iff some node of some rule carries them
        used = {v.label for r in rules for v in r.rhs.nodes()}
        if set(h2.edge_labels()) != set(hrg.edge_labels()) or not (used <= set(h2.node_labels()) <= set(hrg.node_labels())):
            bad.append('label tables')
        for nt in hrg.nonterminals():
            ra, rb = hrg.rules(nt), h2.rules(nt)
            if len(ra) != len(rb): bad.append('rule count'); continue
            for x, y in zip(ra, rb):
                why = rules_iso(x, y)
                if why: bad.append('rule not isomorphic: ' + why)
        for b in bad:
            ctx.fail('JSON round trip: ' + b, dict(ids=ids, json=j1), None, None, tags=['roundtrip'])
        # ---- (b) fromJson correspondence
        for r2, jr in zip(h2.all_rules(), j1['rules']):
            reqs.append(f'C14.fromJson {enc_jrule(jr)}'); meta.append(('from', r2, jr, shape))
        # ---- idempotence with explicit ids
        j2 = json.loads(json.dumps(formats.hrg_to_json(h2)))
        if ids == 'explicit':
            ctx.evaluations += 1
            if j2 != j1:
                ctx.fail('second round trip does not reproduce the JSON although all ids are explicit', dict(json=j1), j2, j1, tags=['idempotent'])
        # ---- (f) malformed: out-of-range numbers
        if k % 3 == 0:
            malformed(ctx, j1, reqs, meta)
    for (kind, r, jr, shape), rep in zip(meta, ctx.driver.ask_many(reqs)):
        if isinstance(rep, Exception): raise rep
        if kind == 'to':
            model = parse_jrule(rep)
            if model != jr:
                ctx.disagree('J.toJson vs hrg_to_json (one rule)', dict(rule=enc_rule(r)), jr, model)
        elif kind == 'from':
            if rep == 'ValueError':
                ctx.disagree('J.fromJson rejects what json_to_hrg accepted', dict(jrule=jr), 'accepted', rep)
                continue
            # canonical form of the implementation's rule: implicit keys by creation index
            nodes = list(r.rhs.nodes()); pos = {v: i for i, v in enumerate(nodes)}
            edges = list(r.rhs.edges())
            impl = (f'{tok(r.lhs.name)} ' +
                    enc_list(list(enumerate(nodes)), lambda p: f'{tok(p[1].label.name)} {tok(p[1].id) if p[1].persist_id else "~" + str(p[0])} {enc_bool(p[1].persist_id)}') + ' ' +
                    enc_list(list(enumerate(edges)), lambda p: f'{tok(p[1].label.name)} {enc_list([pos[v] for v in p[1].nodes])} '
                             f'{tok(p[1].id) if p[1].persist_id else "~" + str(len(nodes) + p[0])} {enc_bool(p[1].persist_id)}') + ' ' +
                    enc_list([pos[v] for v in r.rhs.ext]))
            if rep[3:].split() != impl.split():
                ctx.disagree('J.fromJson vs json_to_hrg (one rule)', dict(jrule=jr), impl, rep[3:])
        else:   # malformed
            want = 'ValueError'
            if rep != want:
                ctx.disagree('J.fromJson accepts an out-of-range node number', dict(jrule=jr), None, rep)
    run_fgg(ctx)
    run_weights(ctx)


def malformed(ctx, j1, reqs, meta):
    for ri, jr in enumerate(j1['rules']):
        nn = len(jr['rhs']['nodes'])
        spots = [('edges', ei, ai) for ei, e in enumerate(jr['rhs']['edges']) for ai in range(len(e['attachments']))] + \
                [('ext', None, xi) for xi in range(len(jr['rhs']['externals']))]
        if not spots:
            continue
        spot = ctx.rng.choice(spots)
        for bad in (-1, -nn, nn, nn + 1):
            j = json.loads(json.dumps(j1))
            r = j['rules'][ri]['rhs']
            if spot[0] == 'edges':
                r['edges'][spot[1]]['attachments'][spot[2]] = bad
            else:
                r['externals'][spot[2]] = bad
            ctx.case(dict(malformed=spot, value=bad), ('malformed', json.dumps(j['rules'][ri]), bad), sample_every=500)
            ctx.count(f'malformed.{bad if bad < 0 else "len+" + str(bad - nn)}')
            try:
                formats.json_to_hrg(j)
                ctx.fail(f'json_to_hrg accepts node number {bad} (out of {nn})', dict(json=j['rules'][ri]), 'accepted', 'ValueError',
                         tags=['accepts-bad-index', 'negative' if bad < 0 else 'too-large'])
            except ValueError:
                pass
            except Exception as e:  # noqa
                ctx.fail(f'json_to_hrg rejects node number {bad} (out of {nn}) with {type(e).__name__}, not ValueError', dict(json=j['rules'][ri]),
                         repr(e), 'ValueError', tags=['rejects-with-other-exception', 'negative' if bad < 0 else 'too-large'])
            reqs.append(f"C14.fromJson {enc_jrule(j['rules'][ri])}"); meta.append(('mal', None, j['rules'][ri], None))


def type_of_numel(rng, n):
    """a random index type (see ptgen) with n elements"""
    opts = [('atom', n)]
    divs = [d for d in range(2, n) if n % d == 0]
    if divs:
        d = rng.choice(divs)
        opts.append(('prod', [('atom', d), ('atom', n // d)]))
    if n >= 2:
        a = rng.randint(1, n - 1)
        opts.append(('sum', [('atom', a), ('atom', n - a)]))
    return rng.choice(opts)


def run_fgg(ctx):
    """FGG round trip: domains, factors (dense and patterned, inf), sum_product"""
    n = 120 if ctx.quick else 1000
    dtype0 = torch.get_default_dtype()
    try:
        for k in range(n):
            # every fourth grammar is written and read in DOUBLE precision (torch.set_default_dtype(torch.float64), what
            # bin/sum_product.py -d does), with weights that single precision cannot hold (0.1, 1e39, 1e-50)
            double = k % 4 == 3
            torch.set_default_dtype(torch.float64 if double else dtype0)
            if double:
                ctx.count('fgg.default-dtype-float64')
            _run_fgg_one(ctx, k, double)
    finally:
        torch.set_default_dtype(dtype0)


def _run_fgg_one(ctx, k, double):
    if True:
        # (every tenth grammar may have an EMPTY domain: factors over it have no entries, but they do have a shape)
        shape = gen.random_shape(ctx.rng, recursive=False, n_nts=(1, 3), rules_per_nt=(1, 2), start_arity=(0, 1),
                                 dom_sizes=(1, 2, 3, 4, 2, 0) if k % 10 == 7 else (1, 2, 3, 4, 2),
                                 weights=(lambda r: r.choice([0.0, 0.1, 0.3, 1e39, 1e-50, 2.0, math.inf])) if double else
                                 (lambda r: r.choice([0.0, 1.0, 2.0, 3.0, math.inf, 0.5])))
        fgg, info = gen.build_fgg(shape, ids=ctx.rng.choice(['implicit', 'explicit']),
                                  domain_kind=ctx.rng.choice(['finite', 'range']), dtype=torch.get_default_dtype())
        # make some weights patterned (diagonal) where the shape allows
        label_type = {}
        for el in fgg.terminals():
            w = fgg.factors[el.name].weights
            if w.ndim == 2 and w.shape[0] == w.shape[1] and w.shape[0] > 1 and ctx.rng.random() < 0.5:
                from fggs.indices import PhysicalAxis
                kx = PhysicalAxis(w.shape[0])
                fgg.factors[el.name].weights = PatternedTensor(w.to_dense().diagonal().clone(), (kx,), (kx, kx), 0.)
            elif w.ndim >= 1 and ctx.rng.random() < 0.6:
                # an arbitrary pattern of the right shape (products, sums, shared and permuted physical axes, non-zero and
                # infinite defaults), virtual axes permuted relative to the physical ones
                from . import ptgen
                perm = ctx.rng.sample(range(w.ndim), w.ndim)
                inv = [perm.index(i) for i in range(w.ndim)]
                # one index type per node label (the library's typing discipline for sum/product axes: all axes over the same
                # domain must decompose it the same way, see C07)
                types = [label_type.setdefault(el.type[i].name, type_of_numel(ctx.rng, w.shape[i])) for i in perm]
                pt = ptgen.random_pt(ctx.rng, types, dtype=torch.get_default_dtype(), values=[0.0, 1.0, 2.0, 3.0, 0.5, 5.0],
                                     defaults=[0.0, 0.0, 1.0, math.inf, 2.0], p_dense=0.2, special_values=(math.inf, 0.0)).permute(inv)
                assert tuple(pt.shape) == tuple(w.shape)
                fgg.factors[el.name].weights = pt
                ctx.count('fgg.random-pattern-weights')
        j = formats.fgg_to_json(fgg)
        ctx.case(dict(fgg_json_keys=list(j['interpretation']['factors'])), ('fgg', k), sample_every=50)
        ctx.count('fgg')
        try:
            s = json.dumps(j)
        except (TypeError, ValueError) as e:
            ctx.fail('fgg_to_json produced an object json.dumps rejects', dict(shape=shape), repr(e), None, tags=['dumps'])
            return
        try:
            f2 = formats.json_to_fgg(json.loads(s))
        except Exception as e:  # noqa
            ctx.fail(f'json_to_fgg rejects what fgg_to_json wrote: {type(e).__name__}: {str(e)[:100]}', dict(json=json.loads(s)), repr(e), None,
                     tags=['fgg-roundtrip', 'rejected', type(e).__name__])
            return
        bad = []
        if set(f2.domains) != set(fgg.domains) or any(f2.domains[d] != fgg.domains[d] for d in fgg.domains):
            bad.append('domains differ')
        if set(f2.factors) != set(fgg.factors):
            bad.append('factor names differ')
        else:
            for name in fgg.factors:
                a, b = fgg.factors[name].weights.to_dense(), f2.factors[name].weights.to_dense()
                if a.shape != b.shape or not bool((a == b).all()):
                    bad.append(f'weights of {name} differ')
                elif b.dtype != torch.get_default_dtype() and b.dtype != torch.bool:
                    bad.append(f'weights of {name} are read as {b.dtype}, the default dtype is {torch.get_default_dtype()}')
        try:
            z1 = fggs.sum_product(fgg, method='fixed-point').to_dense()
            z2 = fggs.sum_product(f2, method='fixed-point').to_dense()
            # (within 1e-12: the weights of the double-precision runs — 0.1, 0.3 — are not dyadic, so the last bit of a sum depends on
            # the order in which the re-read grammar enumerates rules and edges; false alarm of sweep 11, seed 81)
            if z1.shape != z2.shape or not bool(((z1 == z2) | (z1 != z1) | (z2 != z2) |
                                                 ((z1 - z2).abs() <= 1e-12 * torch.maximum(z1.abs(), z2.abs()))).all()):   # NaN (0 * inf) is outside the claim
                bad.append(f'sum_product differs: {z1.tolist()} vs {z2.tolist()}')
        except Exception as e:  # noqa
            bad.append('sum_product raised ' + repr(e))
        for b in bad:
            ctx.fail('FGG JSON round trip: ' + b, dict(json=json.loads(s)), None, None, tags=['fgg-roundtrip'])


def eval_axis(r, pidx, sizes):
    """independent evaluator of a vaxes spec: returns (numel, virtual index) for physical indices pidx"""
    if isinstance(r, list):
        n, v = 1, 0
        for r1 in r:
            n1, v1 = eval_axis(r1, pidx, sizes)
            n, v = n * n1, v * n1 + v1
        return n, v
    if isinstance(r, dict):
        n1, v1 = eval_axis(r['term'], pidx, sizes)
        return r['before'] + n1 + r['after'], r['before'] + v1
    return sizes[r], pidx[r]


def run_weights(ctx):
    """json_to_weights of a patterned specification denotes the tensor the specification describes"""
    n = 150 if ctx.quick else 3000
    for k in range(n):
        nd = ctx.rng.randint(0, 2)
        psize = [ctx.rng.choice([2, 3]) for _ in range(nd)]
        expand = [ctx.rng.choice([2, 3]) for _ in range(ctx.rng.randint(0, 1))]
        sizes = expand + psize
        phys = torch.arange(1, 1 + math.prod(psize), dtype=torch.get_default_dtype()).reshape(psize)
        if phys.numel() and ctx.rng.random() < 0.3:
            phys.view(-1)[0] = math.inf
        # vaxes: every physical axis used exactly once or twice, in products / sums
        def axis_for(i):
            c = ctx.rng.random()
            if c < 0.6: return i
            if c < 0.8: return {'before': ctx.rng.randint(0, 2), 'term': i, 'after': ctx.rng.randint(0, 1)}
            return [i]
        axes = list(range(len(sizes)))
        vaxes = [axis_for(i) for i in axes]
        if len(axes) >= 2 and ctx.rng.random() < 0.4:
            vaxes = [[axes[0], axes[1]]] + [axis_for(i) for i in axes[2:]] + ([axes[0]] if ctx.rng.random() < 0.5 else [])
        elif len(axes) >= 1 and ctx.rng.random() < 0.3:
            vaxes.append(axes[0])      # diagonal
        ctx.rng.shuffle(vaxes)
        default = ctx.rng.choice([0., 1., -math.inf, 7.])
        spec = {'physical': phys.tolist(), 'vaxes': vaxes, 'default': default}
        if expand: spec['expand'] = expand
        ctx.case(dict(spec=spec), ('weights', json.dumps(spec)), sample_every=100)
        ctx.count('weights-spec')
        try:
            got = formats.json_to_weights(json.loads(json.dumps(spec))).to_dense()
        except Exception as e:  # noqa
            ctx.fail('json_to_weights raised on a well-formed patterned specification', dict(spec=spec), repr(e), None, tags=['weights-spec'])
            continue
        vshape = [eval_axis(r, [0] * len(sizes), sizes)[0] for r in vaxes]
        want = torch.full(vshape, default, dtype=phys.dtype)
        for pidx in itertools.product(*[range(s) for s in sizes]):
            vidx = tuple(eval_axis(r, pidx, sizes)[1] for r in vaxes)
            want[vidx] = phys[tuple(pidx[len(expand):])]
        if list(got.shape) != vshape or not bool((got == want).all()):
            ctx.fail('json_to_weights does not denote the tensor the specification describes', dict(spec=spec), got.tolist(), want.tolist(),
                     tags=['weights-spec'])
        # the model `Jw.fromSpec` of json_to_weights / json_to_axis: representation of the resulting PatternedTensor and its dense tensor
        if not any(x == 0 for x in sizes):
            from .common import enc_ext, enc_list
            def es(r):
                if isinstance(r, list): return 'X ' + enc_list(r, es)
                if isinstance(r, dict): return f"S {r['before']} {es(r['term'])} {r['after']}"
                return f'R {r}'
            pt = formats.json_to_weights(json.loads(json.dumps(spec)))
            ids2 = {}
            from fggs.indices import PhysicalAxis as _P, ProductAxis as _X
            def ea(e):
                if isinstance(e, _P): return f'P {ids2.setdefault(id(e), len(ids2))} {e._numel}'
                if isinstance(e, _X): return 'X ' + enc_list(e.factors, ea)
                return f'S {e.before} {ea(e.term)} {e.after}'
            want_rep = (f'{enc_list(pt.physical.contiguous().reshape(-1).tolist() if pt.physical.numel() else [], enc_ext)} '
                        f'{enc_list(pt.paxes, lambda k_: "P " + str(ids2.setdefault(id(k_), len(ids2))) + " " + str(k_._numel))} {enc_list(pt.vaxes, ea)} {enc_ext(float(pt.default))}')
            ctx.extra.setdefault('_w_reqs', []).append(
                f'C14.weights {enc_list(psize)} {enc_list(phys.reshape(-1).tolist(), enc_ext)} {enc_list(expand)} some {enc_list(vaxes, es)} {enc_ext(default)} 3')
            ctx.extra.setdefault('_w_meta', []).append((dict(spec=spec), want_rep, vshape, got.reshape(-1).tolist()))
    from .unifygen import canon
    from .common import dec_ext
    for (case, want_rep, vshape, dense), rep in zip(ctx.extra.pop('_w_meta', []), ctx.driver.ask_many(ctx.extra.pop('_w_reqs', []))):
        if isinstance(rep, Exception):
            raise rep
        ctx.evaluations += 1
        if not rep.startswith('ok'):
            ctx.disagree('Jw.fromSpec: the model raises where json_to_weights returns a tensor', case, 'ok', rep[:80]); continue
        toks = rep.split()[1:]
        i = 0; L = int(toks[i]); phys_ = toks[i + 1:i + 1 + L]; i += 1 + L
        P = int(toks[i]); pax = toks[i + 1:i + 1 + 2 * P]; i += 1 + 2 * P
        # vaxes list + default, then wf, vshape list, dense list
        wl = want_rep.split()
        head = [str(L)] + phys_ + [str(P)] + sum((['P', pax[2 * j_], pax[2 * j_ + 1]] for j_ in range(P)), [])
        body = toks[i:i + (len(wl) - len(head))]
        rest = toks[i + (len(wl) - len(head)):]
        if canon(head + body) != canon(wl) or rest[0] != 'T':
            ctx.disagree('Jw.fromSpec: representation of json_to_weights(spec)', case, want_rep, ' '.join(head + body)); continue
        nv = int(rest[1]); mshape = [int(x) for x in rest[2:2 + nv]]
        nd_ = int(rest[2 + nv]); mdense = [dec_ext(x) for x in rest[3 + nv:3 + nv + nd_]]
        if mshape != vshape or len(mdense) != len(dense) or not all(a == b or (a != a and b != b) for a, b in zip(mdense, dense)):
            ctx.disagree('Jw.fromSpec: dense tensor of json_to_weights(spec)', case, dense, mdense)


def replay(ctx, rep):
    run(ctx)
    return bool(ctx.failures or ctx.disagreements)
