#!/usr/bin/env python3
"""tools/eval_seed.py <Cnn> <k>  — verify a seeded change produced by a sub-agent in /tmp/seed/<Cnn>.out
(patch<k>.diff, demo<k>.py) and run the checks against it.

1. in the scratch worktree /tmp/seed/<Cnn>: demo passes without the patch; with the patch the pinned test
   suite still passes (110) and the demo fails;
2. apply the patch to /repo, run ./check <Cnn> --tier quick (then thorough if quick misses it, and the
   quick checks named with --also), undo with git checkout;
3. on success copy patch/demo into /verif/seeded/<Cnn>-<k>/ and write meta.json."""
import json, os, shutil, subprocess, sys, re
from pathlib import Path

V = Path(__file__).resolve().parent.parent


def sh(cmd, cwd=None, env=None, timeout=3600):
    r = subprocess.run(cmd, shell=True, cwd=cwd, env=env, capture_output=True, text=True, timeout=timeout)
    return r.returncode, r.stdout + r.stderr


def main():
    pid, k = sys.argv[1], sys.argv[2]
    also = [a for a in sys.argv[3:] if a.startswith('C')]
    root = os.environ.get('SEED_ROOT', '/tmp/seed')          # round 2: SEED_ROOT=/tmp/seed2 SEED_OFFSET=2
    offset = int(os.environ.get('SEED_OFFSET', '0'))
    wt = Path(f'{root}/{pid}')
    out = Path(f'{root}/{pid}.out')
    patch, demo = out / f'patch{k}.diff', out / f'demo{k}.py'
    meta_in = json.loads((out / 'meta.json').read_text()) if (out / 'meta.json').exists() else {}
    ch = next((c for c in meta_in.get('changes', []) if c.get('patch') == patch.name), {})
    env = dict(os.environ, PYTHONPATH=str(wt))
    env.pop('FGGS_VERIF', None)
    res = dict(property=pid, patch=patch.name, summary=ch.get('summary'), needs=ch.get('needs'))
    if not wt.exists():
        sh(f'git -C /repo worktree add --detach {wt}')
    sh('git checkout -- .', cwd=wt)
    rc, o = sh(f'/venv/bin/python {demo}', cwd=wt, env=env)
    res['demo_without_patch'] = rc
    rc, o = sh(f'git apply {patch}', cwd=wt)
    if rc:
        print('patch does not apply', o); return 2
    rc, o = sh('/venv/bin/python -m pytest -q -p no:cacheprovider --timeout=900 2>&1 | tail -1', cwd=wt, env=env)
    res['tests_with_patch'] = o.strip()
    rc, o = sh(f'/venv/bin/python {demo}', cwd=wt, env=env)
    res['demo_with_patch'] = rc
    res['demo_output'] = o[-400:]
    sh('git checkout -- .', cwd=wt)
    ok = res['demo_without_patch'] == 0 and res['demo_with_patch'] != 0 and re.search(r'\b110 passed', res['tests_with_patch']) and 'failed' not in res['tests_with_patch']
    res['confirmed'] = bool(ok)
    print(json.dumps(res, indent=1))
    if not ok:
        return 1
    # ---- run the checks against it
    # the checks run against a scratch worktree of /repo's HEAD (FGGS_REPO), so /repo itself is never touched and other
    # work on /repo can go on meanwhile; SEED_REPO=/repo restores the apply-to-/repo-and-revert behaviour
    repo = os.environ.get('SEED_REPO', '/tmp/seedrepo')
    if repo != '/repo' and not os.path.exists(repo):
        sh(f'git -C /repo worktree add --detach {repo}')
    if repo != '/repo':
        sh('git checkout -- . && git checkout --detach ' + sh('git -C /repo rev-parse HEAD')[1].strip(), cwd=repo)
    rc, o = sh(f'git -C {repo} apply {patch}')
    if rc:
        print('patch does not apply to', repo, o); return 2
    cenv = dict(os.environ, FGGS_REPO=repo)
    try:
        runs = {}
        for c in [pid] + also:
            rc, o = sh(f'./check {c} --tier quick', cwd=V, timeout=3000, env=cenv)
            runs[f'{c} quick'] = dict(exit=rc, lines=[l for l in o.splitlines() if l.startswith(('VIOLATION', 'KNOWN-FINDING'))][:3])
            if rc == 0 and c == pid:
                rc, o = sh(f'./check {c} --tier thorough', cwd=V, timeout=6000, env=cenv)
                runs[f'{c} thorough'] = dict(exit=rc, lines=[l for l in o.splitlines() if l.startswith(('VIOLATION', 'KNOWN-FINDING'))][:3])
        res['checks'] = runs
    finally:
        sh(f'git -C {repo} checkout -- .')
    res['caught_by'] = [k_ for k_, v in runs.items() if v['exit'] == 1]
    d = V / 'seeded' / f'{pid}-{int(k) + offset}'
    d.mkdir(parents=True, exist_ok=True)
    shutil.copy(patch, d / 'patch.diff'); shutil.copy(demo, d / 'demo.py')
    if (d / 'meta.json').exists():
        try:
            old = json.loads((d / 'meta.json').read_text())
            if old.get('note') and 'note' not in res:
                res['note'] = old['note']       # the note on how the checks were strengthened survives a re-evaluation
        except Exception:
            pass
    (d / 'meta.json').write_text(json.dumps(res, indent=1))
    print(json.dumps(dict(caught_by=res['caught_by'], checks=runs), indent=1))
    return 0


if __name__ == '__main__':
    sys.exit(main())
