#!/usr/bin/env python3
"""tools/seed_table.py [min_k]  — markdown table of the kept seeded changes (from seeded/*/meta.json)"""
import json, sys, glob, os, re
V = os.path.dirname(os.path.dirname(os.path.abspath(__file__)))
mink = int(sys.argv[1]) if len(sys.argv) > 1 else 1
print('| seed | change | needs | caught by |')
print('|---|---|---|---|')
def key(d):
    b = os.path.basename(d); p, k = b.split('-'); return (p, int(k))
for d in sorted(glob.glob(V + '/seeded/C*-*'), key=key):
    p, k = key(d)
    if k < mink: continue
    m = json.load(open(d + '/meta.json'))
    clean = lambda s: re.sub(r'\s+', ' ', (s or '').replace('|', '/'))
    s, n = clean(m.get('summary')), clean(m.get('needs'))
    cb = ', '.join(m.get('caught_by') or []) or 'MISSED'
    if m.get('note'): cb += ' — ' + clean(m['note'])
    print(f'| {p}-{k} | {s[:260]}{"…" if len(s) > 260 else ""} | {n[:160]}{"…" if len(n) > 160 else ""} | {cb} |')
