#!/bin/bash
# tools/sweep.sh <tier> <seed>...  — run every check on the current tree for the given seeds; print one line per run
cd "$(dirname "$0")/.."
tier=$1; shift
for s in "$@"; do
  for p in C01 C02 C03 C04 C05 C06 C07 C08 C09 C10 C11 C12 C13 C14 C15 C16 C17 C18 C19 C20; do
    out=$(VERIF_SEED=$s timeout 7200 ./check $p --tier $tier 2>&1); rc=$?
    echo "seed=$s $p rc=$rc $(echo "$out" | grep -E '^\[C' | tail -1) $(echo "$out" | grep -c '^VIOLATION') violation-lines"
  done
done
