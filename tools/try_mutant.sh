#!/bin/bash
# usage: tools/try_mutant.sh <patch.diff> <Cnn> [tier]   — applies the patch to a scratch worktree of /repo's HEAD
# (MUT_REPO, default /tmp/mutrepo; /repo itself is not touched), runs the check against it (FGGS_REPO), reverts
P=$(realpath "$1"); C=$2; T=${3:-quick}
cd "$(dirname "$0")/.."
R=${MUT_REPO:-/tmp/mutrepo}
[ -d "$R" ] || git -C /repo worktree add --detach "$R" >/dev/null 2>&1
git -C "$R" checkout -q -- . && git -C "$R" checkout -q --detach "$(git -C /repo rev-parse HEAD)"
git -C "$R" apply "$P" || { echo "patch does not apply"; exit 3; }
FGGS_REPO=$R ./check $C --tier $T 2>&1 | grep -E '^VIOLATION|^KNOWN|^\[C' ; rc=${PIPESTATUS[0]}
git -C "$R" checkout -q -- .
echo "exit=$rc"
