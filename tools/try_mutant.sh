#!/bin/bash
# usage: tools/try_mutant.sh <patch.diff> <Cnn> [tier]   — applies the patch to /repo, runs the check, undoes it
set -u
P=$(realpath "$1"); C=$2; T=${3:-quick}
git -C /repo apply "$P" || { echo "patch does not apply"; exit 3; }
cd /verif && ./check "$C" --tier "$T"; rc=$?
git -C /repo checkout -- . 
echo "check exit=$rc"
exit $rc
