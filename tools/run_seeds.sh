#!/bin/bash
# tools/run_seeds.sh [tier] — regression test of the machinery: apply every kept seeded change to /repo, run the
# check(s) recorded as catching it, revert.  Prints one line per seed; exit 1 if some seed is no longer caught.
# (never run concurrently with anything else that reads /repo)
cd "$(dirname "$0")/.."
tier=${1:-quick}
bad=0
for d in seeded/*/; do
  id=$(basename $d); prop=${id%-*}
  if ! git -C /repo apply --check "$PWD/$d/patch.diff" 2>/dev/null; then echo "$id PATCH-DOES-NOT-APPLY"; bad=1; continue; fi
  git -C /repo apply "$PWD/$d/patch.diff"
  out=$(./check $prop --tier $tier 2>&1); rc=$?
  git -C /repo checkout -- .
  if [ $rc -eq 1 ] && echo "$out" | grep -q "^VIOLATION property=$prop"; then echo "$id caught ($(echo "$out" | grep '^VIOLATION' | head -1))"
  else echo "$id MISSED rc=$rc"; bad=1; fi
done
exit $bad
