#!/bin/bash
# tools/run_seeds.sh [tier] [ids...] — regression test of the machinery: apply every kept seeded change (or the given ids) to a scratch
# worktree of /repo's HEAD (MUT_REPO, default /tmp/mutrepo-seeds; /repo itself is not touched), run the property's check against it
# (FGGS_REPO), revert.  Prints one line per seed; exit 1 if some seed is no longer caught.
cd "$(dirname "$0")/.."
tier=${1:-quick}; shift
R=${MUT_REPO:-/tmp/mutrepo-seeds}
[ -d "$R" ] || git -C /repo worktree add --detach "$R" >/dev/null 2>&1
git -C "$R" checkout -q -- . && git -C "$R" checkout -q --detach "$(git -C /repo rev-parse HEAD)"
bad=0
ids=("$@"); [ ${#ids[@]} -eq 0 ] && ids=($(ls seeded | sort -V))
for id in "${ids[@]}"; do
  d=seeded/$id; prop=${id%-*}
  if ! git -C "$R" apply --check "$PWD/$d/patch.diff" 2>/dev/null; then echo "$id PATCH-DOES-NOT-APPLY"; bad=1; continue; fi
  git -C "$R" apply "$PWD/$d/patch.diff"
  out=$(FGGS_REPO=$R ./check $prop --tier $tier 2>&1); rc=$?
  git -C "$R" checkout -q -- .
  if [ $rc -eq 1 ] && echo "$out" | grep -q "^VIOLATION property=$prop"; then echo "$id caught"
  else echo "$id MISSED rc=$rc"; bad=1; fi
done
exit $bad
