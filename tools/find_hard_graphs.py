#!/usr/bin/env python3
"""tools/find_hard_graphs.py <seed> <count> [nmin nmax]  — offline search for corpus graphs for C10.
Random simple graphs; exact treewidth by dynamic programming over vertex subsets; reports graphs on which
 (a) quickbb or acb of the CURRENT tree is not optimal (a genuine defect), or
 (b) some flawed variant of quickbb's reduction/bound rules (monkeypatched: realistic slips) is not optimal
     while the current tree is — such graphs go into the HARD corpus of harness/c10.py."""
import sys, random, itertools, json, os
sys.path.insert(0, os.environ.get('FGGS_REPO', '/repo'))
from fggs import factorize as F
from functools import lru_cache


def treewidth(n, adj):
    """exact: TW(S) = min over v in S of max(TW(S - v), |Q(S - v, v)|), Q = vertices outside S-v+v reachable from v through S-v"""
    full = (1 << n) - 1
    nb = [sum(1 << u for u in adj[v]) for v in range(n)]
    @lru_cache(maxsize=None)
    def q(S, v):
        # neighbours of the component of v in G[S+v], outside S+v
        comp, frontier = 1 << v, 1 << v
        while frontier:
            u = frontier.bit_length() - 1
            frontier &= ~(1 << u)
            new = nb[u] & S & ~comp
            comp |= new; frontier |= new
        out = 0
        c = comp
        while c:
            u = c.bit_length() - 1; c &= ~(1 << u)
            out |= nb[u]
        return bin(out & ~comp & ~S).count('1')
    @lru_cache(maxsize=None)
    def tw(S):
        if S == 0:
            return -1
        best = n
        s = S
        while s:
            v = s.bit_length() - 1; s &= ~(1 << v)
            rest = S & ~(1 << v)
            best = min(best, max(tw(rest), q(rest, v)))
        return best
    return max(tw(full), 0) if n else 0


def variants():
    orig_as, orig_s, orig_mmw = F.almost_simplicial, F.simplicial, F.minor_min_width
    yield 'as=count_fillin<deg', dict(almost_simplicial=lambda g, v: F.count_fillin(g, v) < len(g[v]))
    yield 'as=always-if-any-nonedge-free-pair', dict(almost_simplicial=lambda g, v: len(g[v]) <= 2 or orig_as(g, v))
    yield 'simplicial=almost', dict(simplicial=lambda g, v: orig_s(g, v) or orig_as(g, v))
    yield 'lb+1', dict(minor_min_width=lambda g: orig_mmw(g) + 1, lower_bound=lambda g: orig_mmw(g) + 1)
    yield 'as=fillin<=1', dict(almost_simplicial=lambda g, v: F.count_fillin(g, v) <= 1)


def width_of(method, adj, patch=None):
    saved = {}
    if patch:
        for k, f in patch.items():
            saved[k] = getattr(F, k); setattr(F, k, f)
    try:
        g = {v: set(adj[v]) for v in adj}
        if method == 'quickbb':
            return F.quickbb(g)[0]
        t = F.tree_decomposition(g, method=method)
        return max(len(b) for b in t) - 1
    finally:
        for k, f in saved.items():
            setattr(F, k, f)


def main():
    seed, count = int(sys.argv[1]), int(sys.argv[2])
    nmin, nmax = (int(sys.argv[3]), int(sys.argv[4])) if len(sys.argv) > 4 else (8, 10)
    rng = random.Random(seed)
    vs = list(variants())
    for i in range(count):
        n = rng.randint(nmin, nmax)
        p = rng.choice([0.25, 0.35, 0.45, 0.55])
        adj = {v: set() for v in range(n)}
        for a, b in itertools.combinations(range(n), 2):
            if rng.random() < p:
                adj[a].add(b); adj[b].add(a)
        tw = treewidth(n, adj)
        es = sorted((a, b) for a in adj for b in adj[a] if a < b)
        for method in ('quickbb', 'acb'):
            try:
                w = width_of(method, adj)
            except Exception as e:
                print(json.dumps(dict(kind='DEFECT-raise', method=method, n=n, edges=es, err=repr(e)))); continue
            if w != tw:
                print(json.dumps(dict(kind='DEFECT', method=method, n=n, edges=es, width=w, tw=tw)), flush=True)
        for name, patch in vs:
            try:
                w = width_of('quickbb', adj, patch)
            except Exception as e:
                w = repr(e)
            if w != tw:
                print(json.dumps(dict(kind='variant', variant=name, n=n, edges=es, width=w, tw=tw)), flush=True)


if __name__ == '__main__':
    main()
