#!/usr/bin/env python3
"""Regenerates MANIFEST.json from tools/claims.json (one entry per claimed property)."""
import json
from pathlib import Path
V = Path(__file__).resolve().parent.parent
claims = json.loads((V / 'tools' / 'claims.json').read_text())
props = [json.loads(l) for l in (V / 'properties.jsonl').read_text().splitlines() if l.strip()]
checks, na = [], []
for p in props:
    pid = p['id']
    c = claims.get(pid)
    if not c or c.get('not_applicable'):
        na.append(dict(property_id=pid, reason=(c or {}).get('not_applicable', 'check not built yet in this round (see DESIGN.md section 8 for the order of work)')))
        continue
    checks.append(dict(
        property_id=pid,
        quick_cmd=f'./check {pid} --tier quick',
        thorough_cmd=f'./check {pid} --tier thorough',
        evidence_file=f'evidence/{pid}.json',
        replay_cmd_template=f'./check {pid} --replay {{path}}',
        engine='lean4-proof+correspondence',
        level_claimed=dict(category='proof', text=c['text'], design_ref=c.get('design_ref', f'DESIGN.md section 4, {pid}')),
        level_note=c['note'],
        technique=c.get('technique', 'Lean 4 theorems about a hand-written model + differential correspondence check against /repo'),
    ))
m = dict(
    version=1,
    setup_cmd='cd lean && lake build',
    hooks=dict(guard='FGGS_VERIF', enable='FGGS_VERIF=1 in the environment of the python process importing fggs (set by ./check)',
               baseline_off_cmd='cd /repo && /venv/bin/python -m pytest -ra -q -p no:cacheprovider --timeout=900 --continue-on-collection-errors',
               source_commits=json.loads((V / 'tools' / 'hook_commits.json').read_text()) if (V / 'tools' / 'hook_commits.json').exists() else [],
               add_only=True),
    engines=[dict(name='lean4-proof+correspondence', path='lean/ + harness/ + check',
                  serves_properties=[c['property_id'] for c in checks],
                  kind_free_text='Lean 4.33 + Mathlib theorems over hand-written executable models (lean/FggsModel, proofs in lean/FggsProofs/Props); native driver speaking a line protocol; python harness running the real library in-process on the same inputs and diffing')],
    checks=checks,
    notes='See DESIGN.md. One entry point: ./check <Cnn> --tier quick|thorough [--replay f]. known_findings.json lists open findings and fixed defects.',
    not_applicable=na,
)
(V / 'MANIFEST.json').write_text(json.dumps(m, indent=1) + '\n')
print(f'{len(checks)} checks, {len(na)} not claimed')
