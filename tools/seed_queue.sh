#!/bin/bash
# tools/seed_queue.sh <root> <offset> <Cnn:k>...  — evaluate seeded changes serially (each applies its patch to /repo and reverts)
cd "$(dirname "$0")/.."
root=$1; off=$2; shift 2
for it in "$@"; do
  p=${it%%:*}; k=${it##*:}
  echo "=== $p $k $(date +%T)"
  SEED_ROOT=$root SEED_OFFSET=$off /venv/bin/python tools/eval_seed.py $p $k 2>&1 | tail -40
done
