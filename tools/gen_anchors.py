#!/usr/bin/env python3
"""tools/gen_anchors.py [--check]  — structural fingerprints of every function and method of diprism/fggs (fggs/*.py, bin/*.py):
sha1 of the AST dump without docstrings.  Written to tools/anchors.json when the models were last brought in line with the source
(run it after every `fix:` commit).  `./check` recomputes them: when a function in one of the property's anchored files differs from
its recorded fingerprint, the model may have been written for other code — the evidence lists the changed functions and the
correspondence is run at the thorough tier's depth instead of the quick one's."""
import ast, hashlib, json, os, sys
REPO = os.environ.get('FGGS_REPO', '/repo')
V = os.path.dirname(os.path.dirname(os.path.abspath(__file__)))


def fingerprints(repo=REPO):
    out = {}
    for sub in ('fggs', 'bin'):
        d = os.path.join(repo, sub)
        for fn in sorted(os.listdir(d)):
            if not fn.endswith('.py'):
                continue
            rel = f'{sub}/{fn}'
            try:
                tree = ast.parse(open(os.path.join(d, fn)).read())
            except SyntaxError:
                out[rel] = {'<syntax error>': 'x'}
                continue
            fps = {}
            def visit(node, prefix):
                for ch in ast.iter_child_nodes(node):
                    if isinstance(ch, (ast.FunctionDef, ast.AsyncFunctionDef, ast.ClassDef)):
                        q = prefix + ch.name
                        if not isinstance(ch, ast.ClassDef):
                            body = ch.body[1:] if ch.body and isinstance(ch.body[0], ast.Expr) and isinstance(getattr(ch.body[0], 'value', None), ast.Constant) \
                                and isinstance(ch.body[0].value.value, str) else ch.body
                            dump = ast.dump(ast.Module(body=body, type_ignores=[])) + ast.dump(ch.args)
                            fps[q] = hashlib.sha1(dump.encode()).hexdigest()[:12]
                        visit(ch, q + '.')
            visit(tree, '')
            # module-level statements outside functions/classes
            top = [n for n in tree.body if not isinstance(n, (ast.FunctionDef, ast.AsyncFunctionDef, ast.ClassDef, ast.Import, ast.ImportFrom))]
            fps['<module>'] = hashlib.sha1(ast.dump(ast.Module(body=top, type_ignores=[])).encode()).hexdigest()[:12]
            out[rel] = fps
    return out


def changed(files, repo=REPO):
    """functions of the given files whose fingerprint differs from tools/anchors.json (added/removed ones included)"""
    rec = json.load(open(os.path.join(V, 'tools', 'anchors.json')))
    cur = fingerprints(repo)
    out = []
    for f in files:
        a, b = rec.get(f, {}), cur.get(f, {})
        out += [f'{f}:{q}' for q in sorted(set(a) | set(b)) if a.get(q) != b.get(q)]
    return out


if __name__ == '__main__':
    if '--check' in sys.argv:
        rec = json.load(open(os.path.join(V, 'tools', 'anchors.json')))
        print(json.dumps(changed(sorted(rec)), indent=1))
    else:
        json.dump(fingerprints(), open(os.path.join(V, 'tools', 'anchors.json'), 'w'), indent=1, sort_keys=True)
        print('written')
